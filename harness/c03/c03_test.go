// C03 - the canonical index describes exactly the chain that ends at the head.
// Engine E2: every small weighted block tree carrying transactions x every parent-closed arrival
// order x batchings x fork-choice coin answers x one SetHead(n) inserted at every position, on the
// real core.BlockChain (full import) and on a header-first twin (InsertHeaderChain).
package c03

import (
	"encoding/json"
	"fmt"
	"math/big"
	"os"
	"strings"
	"testing"
	"time"

	"gitlab.com/aquachain/aquachain/aquadb"
	"gitlab.com/aquachain/aquachain/common"
	"gitlab.com/aquachain/aquachain/core"
	"gitlab.com/aquachain/aquachain/core/types"
	"gitlab.com/aquachain/aquachain/params"
	"gitlab.com/aquachain/aquachain/zzverif/chainkit"
	"gitlab.com/aquachain/aquachain/zzverif/chaintree"
	"gitlab.com/aquachain/aquachain/zzverif/ev"
	"gitlab.com/aquachain/aquachain/zzverif/vrand"
)

// Op is one operation of a history.
type Op struct {
	Ins     []int `json:"ins,omitempty"`     // InsertChain / InsertHeaderChain of these nodes
	Hdr     bool  `json:"hdr,omitempty"`     // mixed history: this operation imports the headers only
	SetHead *int  `json:"sethead,omitempty"` // SetHead(n)
}

type history struct {
	Parent  []int     `json:"parent"`
	Diff    []int64   `json:"diff"`
	Ops     []Op      `json:"ops"`
	Coins   []float64 `json:"coins"`
	Headers bool      `json:"headers"` // header-first twin (InsertHeaderChain) instead of full import
}

type outcome struct {
	fails     []string
	coinsUsed int
	trace     string
}

// txFor puts into every block one transaction that every branch shares at that depth (same sender,
// nonce, content => same hash on sibling branches) and, on non-first siblings, one transaction that
// only that branch carries.
func txFor(env *chainkit.Env) func(s chaintree.Shape, i int, g *core.BlockGen, sib int) {
	return func(s chaintree.Shape, i int, g *core.BlockGen, sib int) {
		// one transaction that every block of the same height carries (mined on every branch) and one
		// that only this block carries (its value is derived from the parent and the sibling number)
		g.AddTx(env.Transfer(0, g.TxNonce(env.Addrs[0]), env.Addrs[2], 1000))
		ph := g.PrevBlock(-1).Hash()
		g.AddTx(env.Transfer(1, g.TxNonce(env.Addrs[1]), env.Addrs[2], int64(100+sib+4*(int(ph[0])<<8|int(ph[1])))))
	}
}

type txLoc struct {
	node, index int
}

func txIndex(t *chaintree.Tree) map[common.Hash][]txLoc {
	m := map[common.Hash][]txLoc{}
	for i, b := range t.Blocks {
		for j, tx := range b.Transactions() {
			m[tx.Hash()] = append(m[tx.Hash()], txLoc{i, j})
		}
	}
	return m
}

func isAncestorOrSelf(t *chaintree.Tree, anc, v int) bool {
	for v >= 0 {
		if v == anc {
			return true
		}
		v = t.Shape.Parent[v]
	}
	return false
}

// checkRest is the C03 invariant for a node at rest.
func checkRest(env *chainkit.Env, bc *core.BlockChain, db aquadb.Database, t *chaintree.Tree, txs map[common.Hash][]txLoc, headers bool, maxH uint64) []string {
	var fails []string
	gen := env.Genesis.Hash()
	var headHash common.Hash
	var headNum uint64
	if headers {
		h := bc.CurrentHeader()
		headHash, headNum = h.Hash(), h.Number.Uint64()
	} else {
		b := bc.CurrentBlock()
		headHash, headNum = b.Hash(), b.NumberU64()
	}
	hi := t.Index(headHash, gen)
	if hi == -2 {
		return []string{fmt.Sprintf("head %x is not a block of the tree", headHash)}
	}
	hashAt := func(num uint64) common.Hash {
		if num == 0 {
			return gen
		}
		a := t.Ancestor(hi, num)
		if a < 0 {
			return common.Hash{}
		}
		return t.Blocks[a].Hash()
	}
	for num := uint64(0); num <= headNum; num++ {
		want := hashAt(num)
		if got := core.GetCanonicalHash(db, num); got != want {
			fails = append(fails, fmt.Sprintf("height %d (<= head %d) maps to %x, the head's ancestor there is %x", num, headNum, got[:4], want[:4]))
			continue
		}
		hdr := bc.GetHeaderByNumber(num)
		if hdr == nil || hdr.Hash() != want {
			fails = append(fails, fmt.Sprintf("header by number %d not retrievable / wrong", num))
		}
		if bc.GetTd(want, num) == nil {
			fails = append(fails, fmt.Sprintf("total difficulty of canonical block %d not retrievable", num))
		}
		if !headers {
			blk := bc.GetBlockByNumber(num)
			if blk == nil || blk.Hash() != want {
				fails = append(fails, fmt.Sprintf("block by number %d not retrievable / wrong", num))
			}
			if bc.GetBody(want) == nil {
				fails = append(fails, fmt.Sprintf("body of canonical block %d not retrievable", num))
			}
			if num > 0 && core.GetBlockReceipts(db, want, num) == nil {
				fails = append(fails, fmt.Sprintf("receipts of canonical block %d not retrievable", num))
			}
		}
	}
	for num := headNum + 1; num <= maxH+2; num++ {
		if got := core.GetCanonicalHash(db, num); got != (common.Hash{}) {
			fails = append(fails, fmt.Sprintf("height %d above the head (%d) still maps to %x (stale canonical entry)", num, headNum, got[:4]))
		}
		if !headers {
			if b := bc.GetBlockByNumber(num); b != nil {
				fails = append(fails, fmt.Sprintf("GetBlockByNumber(%d) above the head (%d) returns a block", num, headNum))
			}
		} else if h := bc.GetHeaderByNumber(num); h != nil {
			fails = append(fails, fmt.Sprintf("GetHeaderByNumber(%d) above the head (%d) returns a header", num, headNum))
		}
	}
	if !headers {
		for h, locs := range txs {
			canon := -1
			idx := 0
			for _, l := range locs {
				if isAncestorOrSelf(t, l.node, hi) {
					canon, idx = l.node, l.index
				}
			}
			tx, bh, bn, ti := core.GetTransaction(db, h)
			switch {
			case canon >= 0 && tx == nil:
				fails = append(fails, fmt.Sprintf("transaction %x is in canonical block (node %d) but its lookup does not resolve", h[:4], canon))
			case canon >= 0 && (bh != t.Blocks[canon].Hash() || bn != t.Blocks[canon].NumberU64() || int(ti) != idx):
				fails = append(fails, fmt.Sprintf("transaction %x lookup points at %x/%d/%d, canonical position is node %d %x/%d/%d", h[:4], bh[:4], bn, ti, canon, t.Blocks[canon].Hash().Bytes()[:4], t.Blocks[canon].NumberU64(), idx))
			case canon < 0 && tx != nil:
				fails = append(fails, fmt.Sprintf("transaction %x is in no canonical block but its lookup resolves to %x/%d", h[:4], bh[:4], bn))
			}
		}
	}
	return fails
}

// checkMixed is the invariant for a chain that received both full blocks and bare headers: the header
// head H may be ahead of the block head B; B is an ancestor of (or equal to) H, heights up to H map to
// H's ancestors, nothing is mapped above H, block data is complete up to B and transaction lookups
// follow B.
func checkMixed(env *chainkit.Env, bc *core.BlockChain, db aquadb.Database, t *chaintree.Tree, txs map[common.Hash][]txLoc, maxH uint64, delivered []bool) []string {
	gen := env.Genesis.Hash()
	H, B := bc.CurrentHeader(), bc.CurrentBlock()
	hi, bi := t.Index(H.Hash(), gen), t.Index(B.Hash(), gen)
	if hi == -2 || bi == -2 {
		return []string{"head is not a block of the tree"}
	}
	var fails []string
	// The header chain follows the heaviest header and may leave the branch of the block head (that is
	// the designed behaviour of header-first sync); block data and lookups are then not comparable.
	onChain := bi == -1 || (hi >= 0 && isAncestorOrSelf(t, bi, hi))
	hashAt := func(from int, num uint64) common.Hash {
		if num == 0 {
			return gen
		}
		a := t.Ancestor(from, num)
		if a < 0 {
			return common.Hash{}
		}
		return t.Blocks[a].Hash()
	}
	for num := uint64(0); num <= H.Number.Uint64(); num++ {
		want := hashAt(hi, num)
		if got := core.GetCanonicalHash(db, num); got != want {
			fails = append(fails, fmt.Sprintf("height %d (<= header head %d) maps to %x, the head's ancestor there is %x", num, H.Number.Uint64(), got[:4], want[:4]))
		}
	}
	for num := H.Number.Uint64() + 1; num <= maxH+2; num++ {
		if got := core.GetCanonicalHash(db, num); got != (common.Hash{}) {
			fails = append(fails, fmt.Sprintf("height %d above the head (%d) still maps to %x (stale canonical entry)", num, H.Number.Uint64(), got[:4]))
		}
	}
	if !onChain {
		return fails
	}
	for num := uint64(1); num <= B.NumberU64(); num++ {
		want := hashAt(bi, num)
		if blk := bc.GetBlockByNumber(num); blk == nil || blk.Hash() != want {
			if len(fails) == 0 {
				fails = append(fails, fmt.Sprintf("block by number %d (<= block head) not retrievable / wrong", num))
			}
		} else if core.GetBlockReceipts(db, want, num) == nil {
			fails = append(fails, fmt.Sprintf("receipts of canonical block %d not retrievable", num))
		}
	}
	for h, locs := range txs {
		canon, idx := -1, 0
		for _, l := range locs {
			if bi >= 0 && isAncestorOrSelf(t, l.node, bi) {
				canon, idx = l.node, l.index
			}
		}
		tx, bh, bn, ti := core.GetTransaction(db, h)
		switch {
		case canon >= 0 && tx == nil:
			fails = append(fails, fmt.Sprintf("transaction %x is in canonical block (node %d) but its lookup does not resolve", h[:4], canon))
		case canon >= 0 && (bh != t.Blocks[canon].Hash() || bn != t.Blocks[canon].NumberU64() || int(ti) != idx):
			fails = append(fails, fmt.Sprintf("transaction %x lookup points at %x/%d/%d, canonical position is node %d", h[:4], bh[:4], bn, ti, canon))
		case canon < 0 && tx != nil:
			fails = append(fails, fmt.Sprintf("transaction %x is in no canonical block but its lookup resolves to %x/%d", h[:4], bh[:4], bn))
		}
	}
	return fails
}

func runHistory(env *chainkit.Env, t *chaintree.Tree, txs map[common.Hash][]txLoc, h history) (o outcome) {
	db := env.NewChainDB()
	vrand.SetScript(h.Coins)
	bc, err := env.Open(db, chainkit.Archive(), chainkit.FullFaker())
	if err != nil {
		o.fails = append(o.fails, "open: "+err.Error())
		return o
	}
	defer bc.Stop()
	maxH := uint64(0)
	for _, b := range t.Blocks {
		if b.NumberU64() > maxH {
			maxH = b.NumberU64()
		}
	}
	rewound := false
	mixed := false
	for _, op := range h.Ops {
		if op.Hdr {
			mixed = true
		}
	}
	defer func() {
		if x := recover(); x != nil {
			o.fails = append(o.fails, fmt.Sprintf("operation panicked (%s): %v", o.trace, x))
		}
	}()
	delivered := make([]bool, len(t.Blocks))
	for oi, op := range h.Ops {
		switch {
		case op.SetHead != nil:
			if err := bc.SetHead(uint64(*op.SetHead)); err != nil {
				o.fails = append(o.fails, fmt.Sprintf("op %d: SetHead(%d): %v", oi, *op.SetHead, err))
				return o
			}
			rewound = true
			o.trace += fmt.Sprintf("S%d;", *op.SetHead)
		case h.Headers || op.Hdr:
			var hs []*types.Header
			for _, i := range op.Ins {
				hs = append(hs, t.Blocks[i].Header())
			}
			tdOf := func(h common.Hash) *big.Int {
				if i := t.Index(h, env.Genesis.Hash()); i >= 0 {
					return t.TD[i]
				}
				return t.GenTD
			}
			before := tdOf(bc.CurrentHeader().Hash())
			_, err := bc.InsertHeaderChain(hs, 1)
			if err == nil {
				for _, i := range op.Ins {
					delivered[i] = true
				}
			}
			// a header import never moves the header head (which the number index follows) to a lighter header,
			// and moves it at least as high as the heaviest header it has just been given
			after := tdOf(bc.CurrentHeader().Hash())
			want := before
			if err == nil {
				for _, i := range op.Ins {
					if t.TD[i].Cmp(want) > 0 {
						want = t.TD[i]
					}
				}
			}
			if after.Cmp(want) < 0 {
				o.fails = append(o.fails, fmt.Sprintf("op %d: after InsertHeaderChain%v the header head has TD %v; it had %v before and the heaviest header just delivered has %v (the number index follows a header that is not a heaviest one)", oi, op.Ins, after, before, want))
				return o
			}
			if err != nil && !rewound && !mixed {
				o.fails = append(o.fails, fmt.Sprintf("op %d: InsertHeaderChain rejected valid headers: %v", oi, err))
				return o
			}
			o.trace += fmt.Sprintf("H%v;", op.Ins)
		default:
			var bs types.Blocks
			for _, i := range op.Ins {
				bs = append(bs, t.Blocks[i])
			}
			_, err := bc.InsertChain(bs)
			if err == nil {
				for _, i := range op.Ins {
					delivered[i] = true
				}
			}
			if err != nil && !rewound && !mixed {
				o.fails = append(o.fails, fmt.Sprintf("op %d: InsertChain rejected valid blocks: %v", oi, err))
				return o
			}
			o.trace += fmt.Sprintf("I%v;", op.Ins)
		}
		var f []string
		if mixed {
			f = checkMixed(env, bc, db, t, txs, maxH, delivered)
		} else {
			f = checkRest(env, bc, db, t, txs, h.Headers, maxH)
		}
		if len(f) > 0 {
			for _, m := range f {
				o.fails = append(o.fails, fmt.Sprintf("after op %d (%s): %s", oi, o.trace, m))
			}
			return o
		}
		hd := bc.CurrentBlock().NumberU64()
		if h.Headers {
			hd = bc.CurrentHeader().Number.Uint64()
		}
		o.trace += fmt.Sprintf("@%d ", hd)
	}
	o.coinsUsed = vrand.Used()
	return o
}

func sizes(tier string) (maxN int, diffs []int64, maxSeg int) {
	if tier == "thorough" {
		return 6, []int64{1, 2}, 3
	}
	return 4, []int64{1, 2}, 2
}

func mixedMax(tier string) int {
	if tier == "thorough" {
		return 4
	}
	return 3
}

func newEnv() (*chainkit.Env, *chaintree.Builder) {
	env := chainkit.NewEnv(params.TestChainConfig, nil)
	b := chaintree.NewBuilder(env)
	b.TxFor = txFor(env)
	return env, b
}

func TestCheck(t *testing.T) {
	chainkit.Quiet()
	if d := ev.Replay(); d != nil {
		run := ev.Start("model_checking")
		var h history
		b, _ := json.Marshal(d.Detail["history"])
		if json.Unmarshal(b, &h) != nil {
			ev.Broken("bad replay detail")
		}
		env, bld := newEnv()
		tr := bld.Build(chaintree.Shape{Parent: h.Parent, Diff: h.Diff})
		o := runHistory(env, tr, txIndex(tr), h)
		if len(o.fails) > 0 {
			fmt.Println("REPRODUCED", o.fails)
			run.Violate(ev.Violation{Scenario: d.Scenario, Oracle: d.Oracle, CaseID: d.CaseID, Detail: d.Detail})
		}
		run.Finish()
	}
	if shard, n, ok := ev.Shard(); ok {
		worker(shard, n)
		return
	}
	run := ev.Start("model_checking")
	run.Rule = "state = operation history (tree, arrival order, batching, coin answers, one SetHead at any position) replayed on a fresh real BlockChain; transition = one InsertChain / InsertHeaderChain / SetHead call followed by the at-rest invariant; distinct_nontrivial = distinct (tree class, operation trace with resulting head heights) pairs"
	run.Assume("full-fake engine so that arbitrary per-block difficulties are importable; everything else is the real import path")
	run.Assume("small scope: trees with <= N blocks (bounds), difficulties {1,2}, batches <= max_batch, at most one SetHead per history")
	run.Assume("a transaction lookup 'resolves' when core.GetTransaction (the function the RPC API uses) returns the transaction")
	res := run.RunWorkers(ev.Jobs(), nil, nil)
	var states, trans int64
	for _, w := range res {
		if w != nil {
			states += w.Counters["histories"]
			trans += w.Counters["ops"]
		}
	}
	maxN, diffs, maxSeg := sizes(run.Tier)
	run.Set("states", states)
	run.Set("transitions", trans)
	run.Set("traces_validated_against_impl", trans)
	run.Set("bounds", map[string]interface{}{"max_blocks": maxN, "difficulties": diffs, "max_batch": maxSeg, "sethead_per_history": 1, "sethead_max_blocks": 4, "mixed_max_blocks": mixedMax(run.Tier)})
	run.Finish()
}

func worker(shard, nsh int) {
	tier := os.Getenv("VERIF_TIER")
	maxN, diffs, maxSeg := sizes(tier)
	res := &ev.WorkerResult{Counters: map[string]int64{}}
	classes := map[string]bool{}
	env, bld := newEnv()
	deadline := time.Now().Add(8 * time.Minute)
	if tier == "thorough" {
		deadline = time.Now().Add(50 * time.Minute)
	}
	sigSeen := map[string]bool{}
	idx := 0
	capped := false
	runOne := func(s chaintree.Shape, tr *chaintree.Tree, txs map[common.Hash][]txLoc, ops []Op, headers bool) {
		stack := [][]float64{nil}
		for len(stack) > 0 {
			coins := stack[len(stack)-1]
			stack = stack[:len(stack)-1]
			h := history{Parent: s.Parent, Diff: s.Diff, Ops: ops, Coins: coins, Headers: headers}
			o := runHistory(env, tr, txs, h)
			res.Evals++
			res.Counters["histories"]++
			res.Counters["ops"] += int64(len(ops))
			if len(o.fails) > 0 {
				oc := oracleOf(o.fails[0])
				mode := "full"
				if headers {
					mode = "headers"
				}
				for _, op := range ops {
					if op.Hdr {
						mode = "mixed"
					}
				}
				hasSH := "import-only"
				for _, op := range ops {
					if op.SetHead != nil {
						hasSH = "with-sethead"
					}
				}
				sig := mode + "/" + oc + "/" + hasSH
				if !sigSeen[sig] {
					sigSeen[sig] = true
					for k := 0; k < 2; k++ {
						if o2 := runHistory(env, tr, txs, h); len(o2.fails) == 0 {
							ev.Broken("C03 verdict flipped on re-run: %v", o.fails)
						}
					}
					res.Violations = append(res.Violations, ev.Violation{
						Scenario: mode, Oracle: oc, CaseID: hasSH,
						Detail: map[string]interface{}{"history": h, "fails": o.fails, "tree": s.String()},
					})
				}
				res.Counters["failing_histories"]++
				continue
			}
			classes[hash64(s.String()+"|"+o.trace)] = true
			if len(res.Samples) < 2 && len(s.Parent) == maxN && len(coins) > 0 {
				res.Samples = append(res.Samples, map[string]interface{}{"tree": s.String(), "trace": o.trace, "coins": coins, "headers": headers})
			}
			for i := len(coins); i < o.coinsUsed; i++ {
				alt := make([]float64, i+1)
				copy(alt, coins)
				for j := len(coins); j < i; j++ {
					alt[j] = 0.25
				}
				alt[i] = 0.75
				stack = append(stack, alt)
			}
		}
	}
outer:
	for n := 1; n <= maxN; n++ {
		for _, s := range chaintree.Shapes(n, diffs) {
			idx++
			if idx%nsh != shard {
				continue
			}
			tr := bld.Build(s)
			txs := txIndex(tr)
			res.Counters["trees"]++
			maxH := 0
			for _, b := range tr.Blocks {
				if int(b.NumberU64()) > maxH {
					maxH = int(b.NumberU64())
				}
			}
			for _, order := range chaintree.Orders(s) {
				for _, segs := range chaintree.Segmentations(s, order, maxSeg) {
					var base []Op
					for _, sg := range segs {
						base = append(base, Op{Ins: sg})
					}
					runOne(s, tr, txs, base, false)
					runOne(s, tr, txs, base, true)
					// mixed: a contiguous run of operations delivers bare headers, the others full blocks
					if len(s.Parent) <= mixedMax(tier) {
						for k := 0; k < len(base); k++ {
							for j := 1; k+j <= len(base); j++ {
								ops := append([]Op(nil), base...)
								for x := k; x < k+j; x++ {
									ops[x] = Op{Ins: base[x].Ins, Hdr: true}
								}
								runOne(s, tr, txs, ops, false)
							}
						}
					}
					// one SetHead(m) after every prefix, then the rest of the history
					for k := 1; k <= len(base) && len(s.Parent) <= 4; k++ { // SetHead variants on trees of <= 4 blocks
						for m := 0; m <= maxH+1; m++ {
							mm := m
							ops := append(append(append([]Op(nil), base[:k]...), Op{SetHead: &mm}), base[k:]...)
							runOne(s, tr, txs, ops, false)
							runOne(s, tr, txs, ops, true)
							// ... and, after the rest of the history, the blocks the rewind removed arrive once more
							// (a peer serves them again): one block per call, in the original order
							var again []Op
							for _, o := range base[:k] {
								for _, i := range o.Ins {
									if int(tr.Blocks[i].NumberU64()) > m {
										again = append(again, Op{Ins: []int{i}})
									}
								}
							}
							if len(again) > 0 && len(s.Parent) <= 3 {
								runOne(s, tr, txs, append(append([]Op(nil), ops...), again...), false)
							}
						}
					}
				}
			}
			if time.Now().After(deadline) {
				capped = true
				break outer
			}
		}
	}
	if capped {
		res.Caps = append(res.Caps, "internal deadline reached; enumeration of tree classes incomplete")
	}
	for c := range classes {
		res.Classes = append(res.Classes, c)
	}
	ev.WorkerDone(res)
}

func oracleOf(msg string) string {
	for _, k := range []string{"operation panicked", "is not a heaviest one", "is not on the chain of the header head", "stale canonical entry", "above the head", "maps to", "not retrievable", "lookup does not resolve", "lookup points at", "in no canonical block", "rejected valid", "not a block of the tree", "SetHead("} {
		if strings.Contains(msg, k) {
			return strings.ReplaceAll(strings.Trim(k, "("), " ", "-")
		}
	}
	return "other"
}

func hash64(x string) string {
	var h uint64 = 14695981039346656037
	for i := 0; i < len(x); i++ {
		h = (h ^ uint64(x[i])) * 1099511628211
	}
	return fmt.Sprintf("%016x", h)
}

var _ = big.NewInt
