// C10 - the Merkle-Patricia trie commits to exactly its content.
//
// Engine E2 (exhaustive operation sequences over the real trie.Trie / trie.SecureTrie on
// trie.NewDatabase(aquadb.NewMemDatabase())) with refmpt (Yellow Paper appendix D, written
// independently of /repo/trie and /repo/rlp) as the root oracle and a plain map as content oracle.
// DESIGN.md section 4 / C10.
//
// Parts:   order    - order independence: every permutation of every content set of <= 4 keys, with every
//
//	           insert-then-delete of an extra key at every pair of positions, three hashing modes
//	history  - every operation sequence up to depth d over update/delete/get/Hash/Commit(limit)/
//	           reopen/flush/restart/iterate for three keys
//	gc       - sequences over commit+Reference / Dereference / flush of several roots in one
//	           trie.Database: every still referenced root reopens to its content
//	derive   - types.DeriveSha for list lengths 0..130
//	sweep    - value lengths 1..60 (embedded-node boundary, RLP 55/56 boundary)
//	proof    - Prove / VerifyProof for present and absent keys, every single-byte alteration,
//	           truncation, extension and removal of every proof node
package c10

import (
	"bytes"
	"fmt"
	"math/big"
	"os"
	"runtime"
	"runtime/debug"
	"runtime/pprof"
	"sort"
	"strconv"
	"strings"
	"sync"
	"sync/atomic"
	"testing"
	"time"

	"gitlab.com/aquachain/aquachain/aquadb"
	"gitlab.com/aquachain/aquachain/common"
	"gitlab.com/aquachain/aquachain/common/log"
	"gitlab.com/aquachain/aquachain/core/types"
	"gitlab.com/aquachain/aquachain/trie"
	"gitlab.com/aquachain/aquachain/zzverif/ev"
	"gitlab.com/aquachain/aquachain/zzverif/ref/refmpt"
)

// ---- key families and values --------------------------------------------------------------------

type family struct {
	name   string
	keys   [][]byte // six keys
	secure bool
	hist   [3]int // the three keys used by the history part
	absent int    // a key of the family that the history part never inserts
}

func fixedKey(mods ...int) []byte {
	// 32 bytes of 0x11; mods are nibble positions whose nibble becomes 2
	k := bytes.Repeat([]byte{0x11}, 32)
	for _, p := range mods {
		if p%2 == 0 {
			k[p/2] = 0x20 | k[p/2]&0x0f
		} else {
			k[p/2] = k[p/2]&0xf0 | 0x02
		}
	}
	return k
}

var families = []*family{
	{name: "V", keys: [][]byte{[]byte(""), []byte("a"), []byte("ab"), []byte("abc"), []byte("ac"), []byte("b")}, hist: [3]int{1, 2, 5}, absent: 3},
	// k0 base; k1,k2,k3,k4 share 0,1,2,63 leading nibbles with k0; k5 shares 63 with k3
	{name: "F", keys: [][]byte{fixedKey(), fixedKey(0), fixedKey(1), fixedKey(2), fixedKey(63), fixedKey(2, 63)}, hist: [3]int{0, 3, 4}, absent: 5},
	{name: "S", keys: [][]byte{[]byte("a"), []byte("b"), []byte("c"), []byte("d"), []byte("e"), []byte("f")}, secure: true, hist: [3]int{0, 1, 2}, absent: 3},
}

func famByName(n string) *family {
	for _, f := range families {
		if f.name == n {
			return f
		}
	}
	return nil
}

// value kinds: 1 = one byte, 2 = 31 bytes, 3 = 32 bytes, 4 = 33 bytes, 5 = a second one-byte value >= 0x80
const nValueKinds = 5

func val(kind, keyIdx int) []byte {
	switch kind {
	case 1:
		return []byte{byte(keyIdx + 1)}
	case 2:
		return bytes.Repeat([]byte{byte(0x40 + keyIdx)}, 31)
	case 3:
		return bytes.Repeat([]byte{byte(0x50 + keyIdx)}, 32)
	case 4:
		return bytes.Repeat([]byte{byte(0x60 + keyIdx)}, 33)
	case 5:
		return []byte{byte(0x80 | keyIdx)}
	}
	return nil
}

// value patterns for the content-set parts: which kind key i gets.
const nPatterns = 4

func patKind(p, i int) int {
	switch p {
	case 0:
		return 1
	case 1:
		return 4
	case 2:
		return 1 + i%nValueKinds
	default:
		return 1 + (i+2)%nValueKinds
	}
}

// ---- trie handle (plain or secure) --------------------------------------------------------------

type handle struct {
	secure bool
	t      *trie.Trie
	st     *trie.SecureTrie
}

func open(secure bool, root common.Hash, db *trie.Database, limit uint16) (*handle, error) {
	if secure {
		st, err := trie.NewSecure(root, db, limit)
		if err != nil {
			return nil, err
		}
		return &handle{secure: true, st: st}, nil
	}
	t, err := trie.New(root, db)
	if err != nil {
		return nil, err
	}
	return &handle{t: t}, nil
}

func (h *handle) get(k []byte) ([]byte, error) {
	if h.secure {
		return h.st.TryGet(k)
	}
	return h.t.TryGet(k)
}
func (h *handle) update(k, v []byte) error {
	if h.secure {
		return h.st.TryUpdate(k, v)
	}
	return h.t.TryUpdate(k, v)
}
func (h *handle) del(k []byte) error {
	if h.secure {
		return h.st.TryDelete(k)
	}
	return h.t.TryDelete(k)
}
func (h *handle) hash() common.Hash {
	if h.secure {
		return h.st.Hash()
	}
	return h.t.Hash()
}
func (h *handle) commit() (common.Hash, error) {
	if h.secure {
		return h.st.Commit(nil)
	}
	return h.t.Commit(nil)
}
func (h *handle) nodeIter(start []byte) trie.NodeIterator {
	if h.secure {
		return h.st.NodeIterator(start)
	}
	return h.t.NodeIterator(start)
}

// trieKey is the key as stored in the underlying trie.
func (h *handle) trieKey(k []byte) []byte {
	if h.secure {
		x := refmpt.Keccak256(k)
		return x[:]
	}
	return k
}

// prove: SecureTrie.Prove (like upstream) takes the already hashed key, as does VerifyProof.
func (h *handle) prove(k []byte, db aquadb.Putter) error {
	if h.secure {
		return h.st.Prove(h.trieKey(k), 0, db)
	}
	return h.t.Prove(k, 0, db)
}

type fail struct {
	oracle string // coarse oracle name
	where  string // coarse position (op kind)
	msg    string
}

func (f *fail) String() string { return f.oracle + "@" + f.where + ": " + f.msg }

func guard(where string, fn func() *fail) (f *fail) {
	defer func() {
		if r := recover(); r != nil {
			f = &fail{"panic", where, fmt.Sprint(r)}
		}
	}()
	return fn()
}

// refRoot is the reference root of content m. The reference recomputes everything from scratch, so
// its results are memoised per canonical content (the memo is harness plumbing, not part of refmpt).
var rootMemo sync.Map

func refRoot(secure bool, m map[string][]byte) common.Hash {
	keys := make([]string, 0, len(m))
	for k, v := range m {
		if len(v) > 0 {
			keys = append(keys, k)
		}
	}
	sort.Strings(keys)
	var b []byte
	if secure {
		b = append(b, 's')
	}
	for _, k := range keys {
		b = append(b, byte(len(k)))
		b = append(b, k...)
		b = append(b, byte(len(m[k])))
		b = append(b, m[k]...)
	}
	if r, ok := rootMemo.Load(string(b)); ok {
		return r.(common.Hash)
	}
	var r common.Hash
	if secure {
		r = common.Hash(refmpt.SecureRoot(m))
	} else {
		r = common.Hash(refmpt.Root(m))
	}
	rootMemo.Store(string(b), r)
	return r
}

type kvp struct{ k, v []byte }

// pathLess orders keys the way the trie lays them out: by nibble path, where the end of a key (the
// terminator nibble 16) sorts after every real nibble, i.e. a key comes after the keys it is a proper
// prefix of. For keys of equal length this is plain byte order.
func pathLess(a, b []byte) bool {
	n := len(a)
	if len(b) < n {
		n = len(b)
	}
	if c := bytes.Compare(a[:n], b[:n]); c != 0 {
		return c < 0
	}
	return len(a) > len(b)
}

// sortedModel is the content in trie path order.
func sortedModel(h *handle, m map[string][]byte) []kvp {
	var out []kvp
	for k, v := range m {
		if len(v) > 0 {
			out = append(out, kvp{h.trieKey([]byte(k)), v})
		}
	}
	sort.Slice(out, func(a, b int) bool { return pathLess(out[a].k, out[b].k) })
	return out
}

func iterate(h *handle, start []byte) ([]kvp, error) {
	it := trie.NewIterator(h.nodeIter(start))
	var out []kvp
	for it.Next() {
		out = append(out, kvp{common.CopyBytes(it.Key), common.CopyBytes(it.Value)})
		if len(out) > 64 {
			return out, fmt.Errorf("iterator does not terminate")
		}
	}
	return out, it.Err
}

func sameKV(a, b []kvp) bool {
	if len(a) != len(b) {
		return false
	}
	for i := range a {
		if !bytes.Equal(a[i].k, b[i].k) || !bytes.Equal(a[i].v, b[i].v) {
			return false
		}
	}
	return true
}

func fmtKV(a []kvp) string {
	var s []string
	for _, e := range a {
		s = append(s, fmt.Sprintf("%x=%x", e.k, e.v))
	}
	return "[" + strings.Join(s, " ") + "]"
}

// checkContent compares everything observable of the trie with the model: root, lookups of every
// universe key, full iteration, and (seeks) iteration from every universe key.
func checkContent(h *handle, m map[string][]byte, universe [][]byte, where string, seeks bool) *fail {
	for _, k := range universe {
		got, err := h.get(k)
		if err != nil {
			return &fail{"get-error", where, fmt.Sprintf("key %x: %v", k, err)}
		}
		if !bytes.Equal(got, m[string(k)]) {
			return &fail{"get-value", where, fmt.Sprintf("key %x: got %x want %x", k, got, m[string(k)])}
		}
	}
	if got, want := h.hash(), refRoot(h.secure, m); got != want {
		return &fail{"root", where, fmt.Sprintf("got %x want %x", got, want)}
	}
	want := sortedModel(h, m)
	got, err := iterate(h, nil)
	if err != nil {
		return &fail{"iterate-error", where, err.Error()}
	}
	if !sameKV(got, want) {
		return &fail{"iterate-content", where, fmt.Sprintf("got %s want %s", fmtKV(got), fmtKV(want))}
	}
	if h.secure {
		// pre-images: every iterated (hashed) key maps back to a raw key of the content
		for _, e := range got {
			raw := h.st.GetKey(e.k)
			if v, ok := m[string(raw)]; !ok || !bytes.Equal(v, e.v) {
				return &fail{"preimage", where, fmt.Sprintf("GetKey(%x) = %x", e.k, raw)}
			}
		}
	}
	if seeks {
		for _, k := range universe {
			start := h.trieKey(k)
			var w []kvp
			for _, e := range want {
				// seek positions at the first path >= nibbles(start) (no terminator): everything that is
				// not smaller within the common length
				n := len(start)
				if len(e.k) < n {
					n = len(e.k)
				}
				if bytes.Compare(e.k[:n], start[:n]) >= 0 {
					w = append(w, e)
				}
			}
			g, err := iterate(h, start)
			if err != nil {
				return &fail{"iterate-error", where, fmt.Sprintf("seek %x: %v", start, err)}
			}
			if !sameKV(g, w) {
				return &fail{"iterate-seek", where, fmt.Sprintf("seek %x: got %s want %s", start, fmtKV(g), fmtKV(w))}
			}
		}
	}
	return nil
}

// ---- proofs -------------------------------------------------------------------------------------

type proofStats struct {
	verifications int64
	classes       map[string]struct{}
}

// checkProofs proves every universe key and verifies; when masks != nil additionally applies every
// alteration. root is the reference root.
func checkProofs(h *handle, m map[string][]byte, universe [][]byte, where string, masks []byte, st *proofStats) *fail {
	if len(m) == 0 {
		return nil // see Assume: the empty trie has no root node to prove anything against
	}
	root := refRoot(h.secure, m)
	for _, k := range universe {
		want := m[string(k)]
		pdb := aquadb.NewMemDatabase()
		if err := h.prove(k, pdb); err != nil {
			return &fail{"prove-error", where, fmt.Sprintf("key %x: %v", k, err)}
		}
		tk := h.trieKey(k)
		got, err, _ := trie.VerifyProof(root, tk, pdb)
		if st != nil {
			st.verifications++
			st.classes[fmt.Sprintf("proof/present=%v/nodes=%d/vlen=%d", len(want) > 0, pdb.Len(), len(want))] = struct{}{}
		}
		if err != nil {
			return &fail{"proof-rejected", where, fmt.Sprintf("key %x: %v", k, err)}
		}
		if !bytes.Equal(got, want) {
			return &fail{"proof-value", where, fmt.Sprintf("key %x: got %x want %x", k, got, want)}
		}
		if masks == nil {
			continue
		}
		verdict := func(what string) *fail {
			g, err, _ := trie.VerifyProof(root, tk, pdb)
			if st != nil {
				st.verifications++
			}
			if err != nil {
				return nil
			}
			if !bytes.Equal(g, want) {
				kind := "proof-altered-other-value"
				if len(g) == 0 {
					kind = "proof-altered-absent"
				}
				return &fail{kind, where, fmt.Sprintf("key %x %s: verified to %x, content has %x", k, what, g, want)}
			}
			return nil
		}
		nodeKeys := pdb.Keys()
		sort.Slice(nodeKeys, func(a, b int) bool { return bytes.Compare(nodeKeys[a], nodeKeys[b]) < 0 })
		for _, nk := range nodeKeys {
			orig, _ := pdb.Get(nk)
			// stored the way trie/proof_test.go does: drop the node, store the altered one under its own hash
			try := func(alt []byte, what string) *fail {
				pdb.Delete(nk)
				var ak [32]byte
				if alt != nil {
					ak = refmpt.Keccak256(alt)
					pdb.Put(ak[:], alt)
				}
				f := verdict(what)
				if alt != nil {
					pdb.Delete(ak[:])
				}
				pdb.Put(nk, orig)
				return f
			}
			alt := make([]byte, len(orig))
			for i := range orig {
				for _, mk := range masks {
					copy(alt, orig)
					alt[i] ^= mk
					if f := try(alt, fmt.Sprintf("node %x byte %d xor %02x", nk[:4], i, mk)); f != nil {
						return f
					}
				}
			}
			if f := try(nil, fmt.Sprintf("node %x removed", nk[:4])); f != nil {
				return f
			}
			if f := try(orig[:len(orig)-1], fmt.Sprintf("node %x truncated", nk[:4])); f != nil {
				return f
			}
			if f := try(append(common.CopyBytes(orig), 0), fmt.Sprintf("node %x extended", nk[:4])); f != nil {
				return f
			}
		}
	}
	return nil
}

// ---- scripts (order / sweep / proof parts and their replay) ---------------------------------------

// A script is a list of steps "put:<hexkey>:<hexval>", "del:<hexkey>" (TryDelete),
// "putnil:<hexkey>" (TryUpdate(k,nil)), "putempty:<hexkey>" (TryUpdate(k,[]byte{})).
// mode 0: zero-value trie (plain) / fresh secure trie, hashed only at the end
// mode 1: Hash() after every step       mode 2: Commit() after every step (cache limit 0: unloads and reloads)
// mode 3: like 0, then Commit, flush to disk and reopen from a fresh trie.Database before the checks
type script struct {
	secure   bool
	mode     int
	steps    []string
	universe [][]byte
	proofs   bool
	masks    []byte
	noSeeks  bool // skip the iterate-from-every-key checks
}

func hexs(b []byte) string { return fmt.Sprintf("%x", b) }

func unhex(s string) []byte { return common.FromHex("0x" + s) }

func runScript(sc *script, st *proofStats) *fail {
	return guard("script", func() *fail {
		disk := aquadb.NewMemDatabase()
		tdb := trie.NewDatabase(disk)
		var h *handle
		if sc.mode == 0 && !sc.secure {
			h = &handle{t: new(trie.Trie)}
		} else {
			var err error
			if h, err = open(sc.secure, common.Hash{}, tdb, 0); err != nil {
				return &fail{"open-error", "new", err.Error()}
			}
		}
		m := map[string][]byte{}
		for i, s := range sc.steps {
			p := strings.Split(s, ":")
			k := unhex(p[1])
			var err error
			switch p[0] {
			case "put":
				v := unhex(p[2])
				err = h.update(k, v)
				m[string(k)] = v
			case "del":
				err = h.del(k)
				delete(m, string(k))
			case "putnil":
				err = h.update(k, nil)
				delete(m, string(k))
			case "putempty":
				err = h.update(k, []byte{})
				delete(m, string(k))
			default:
				ev.Broken("bad script step %q", s)
			}
			if err != nil {
				return &fail{"update-error", p[0], fmt.Sprintf("step %d %s: %v", i, s, err)}
			}
			switch sc.mode {
			case 1:
				if got, want := h.hash(), refRoot(sc.secure, m); got != want {
					return &fail{"root", "hash-after-" + p[0], fmt.Sprintf("step %d: got %x want %x", i, got, want)}
				}
			case 2:
				got, err := h.commit()
				if err != nil {
					return &fail{"commit-error", "commit-after-" + p[0], err.Error()}
				}
				if want := refRoot(sc.secure, m); got != want {
					return &fail{"root", "commit-after-" + p[0], fmt.Sprintf("step %d: got %x want %x", i, got, want)}
				}
			}
		}
		where := "final-mode" + strconv.Itoa(sc.mode)
		if sc.mode == 3 {
			root, err := h.commit()
			if err != nil {
				return &fail{"commit-error", where, err.Error()}
			}
			if want := refRoot(sc.secure, m); root != want {
				return &fail{"root", where, fmt.Sprintf("commit: got %x want %x", root, want)}
			}
			if err := tdb.Commit(root, false); err != nil {
				return &fail{"flush-error", where, err.Error()}
			}
			tdb = trie.NewDatabase(disk)
			if h, err = open(sc.secure, root, tdb, 0); err != nil {
				return &fail{"reopen-error", where, err.Error()}
			}
		}
		if sc.proofs {
			// before checkContent so that, in mode 3, Prove meets unresolved hash nodes
			if f := checkProofs(h, m, sc.universe, where, sc.masks, st); f != nil {
				return f
			}
		}
		return checkContent(h, m, sc.universe, where, !sc.noSeeks)
	})
}

// ---- histories ------------------------------------------------------------------------------------

const (
	opGetAll  = 9
	opHash    = 10
	opCommit0 = 11 // SetCacheLimit(0); Commit   (secure: Commit, limit fixed per run)
	opCommit1 = 12
	opCommit2 = 13
	opReopen  = 14 // trie.New(last committed root, same trie.Database): uncommitted changes are gone
	opFlush   = 15 // trie.Database.Commit(last committed root): nodes move to the disk database
	opRestart = 16 // flush, then a fresh trie.Database over the same disk database and reopen
	opIterate = 17
	nOps      = 18
)

var opNames = []string{"k0=short", "k0=long", "k0=del", "k1=short", "k1=long", "k1=putnil", "k2=short", "k2=long", "k2=del",
	"getall", "hash", "commit/limit0", "commit/limit1", "commit/limit2", "reopen", "flush", "restart", "iterate"}

func opKind(op int) string {
	if op < 9 {
		return []string{"update", "update", "delete"}[op%3]
	}
	return opNames[op]
}

func alphabet(f *family, reduced bool) []int {
	var a []int
	for op := 0; op < nOps; op++ {
		if f.secure && (op == opCommit1 || op == opCommit2) {
			continue
		}
		if reduced {
			// two keys, no reopen (restart subsumes it), no iterate (final check iterates), no flush
			if op >= 6 && op < 9 || op == opReopen || op == opIterate || op == opFlush {
				continue
			}
		}
		a = append(a, op)
	}
	return a
}

type histCtx struct {
	f        *family
	limit    uint16 // secure only
	keys     [3][]byte
	vals     [3][3][]byte // [key][0 none,1 short,2 long]
	roots    [27]common.Hash
	universe [][]byte
	models   [27]map[string][]byte
	seen     [27 * nOps]atomic.Bool // (final content, last op) pairs reached by the history part
}

func code(c [3]uint8) int { return int(c[0]) + 3*int(c[1]) + 9*int(c[2]) }

// sameVals: all keys get the same long value, so that sibling leaves with equal key suffixes are one
// and the same database node (shared-node reference counting in the gc part).
func newHistCtx(f *family, limit uint16, sameVals bool) *histCtx {
	c := &histCtx{f: f, limit: limit}
	for i := 0; i < 3; i++ {
		c.keys[i] = f.keys[f.hist[i]]
		c.vals[i][1] = val(1, f.hist[i])
		c.vals[i][2] = val(4, f.hist[i])
		if sameVals {
			c.vals[i][2] = val(4, 0)
		}
		c.universe = append(c.universe, c.keys[i])
	}
	c.universe = append(c.universe, f.keys[f.absent])
	for a := uint8(0); a < 3; a++ {
		for b := uint8(0); b < 3; b++ {
			for d := uint8(0); d < 3; d++ {
				m := map[string][]byte{}
				for i, x := range [3]uint8{a, b, d} {
					if x != 0 {
						m[string(c.keys[i])] = c.vals[i][x]
					}
				}
				c.models[code([3]uint8{a, b, d})] = m
				c.roots[code([3]uint8{a, b, d})] = refRoot(f.secure, m)
			}
		}
	}
	return c
}

// runHistory executes one operation sequence on a fresh trie and database.
func (c *histCtx) runHistory(seq []int, withProofs bool) (f *fail) {
	step := "new"
	defer func() {
		if r := recover(); r != nil {
			f = &fail{"panic", step, fmt.Sprint(r)}
		}
	}()
	disk := aquadb.NewMemDatabase()
	tdb := trie.NewDatabase(disk)
	h, err := open(c.f.secure, common.Hash{}, tdb, c.limit)
	if err != nil {
		return &fail{"open-error", "new", err.Error()}
	}
	var cur, committed [3]uint8
	croot := common.Hash(refmpt.EmptyRoot())
	for i, op := range seq {
		step = opKind(op)
		switch {
		case op < 9:
			k, a := op/3, op%3
			switch {
			case a < 2:
				err = h.update(c.keys[k], c.vals[k][a+1])
				cur[k] = uint8(a + 1)
			case k == 1:
				err = h.update(c.keys[k], nil)
				cur[k] = 0
			default:
				err = h.del(c.keys[k])
				cur[k] = 0
			}
			if err != nil {
				return &fail{"update-error", step, fmt.Sprintf("step %d: %v", i, err)}
			}
		case op == opGetAll:
			for j, k := range c.universe {
				got, err := h.get(k)
				if err != nil {
					return &fail{"get-error", step, fmt.Sprintf("step %d key %d: %v", i, j, err)}
				}
				var want []byte
				if j < 3 {
					want = c.vals[j][cur[j]]
				}
				if !bytes.Equal(got, want) {
					return &fail{"get-value", step, fmt.Sprintf("step %d key %d: got %x want %x", i, j, got, want)}
				}
			}
		case op == opHash:
			if got := h.hash(); got != c.roots[code(cur)] {
				return &fail{"root", step, fmt.Sprintf("step %d: got %x want %x", i, got, c.roots[code(cur)])}
			}
		case op == opCommit0 || op == opCommit1 || op == opCommit2:
			if !c.f.secure {
				h.t.SetCacheLimit(uint16(op - opCommit0))
			}
			got, err := h.commit()
			if err != nil {
				return &fail{"commit-error", step, fmt.Sprintf("step %d: %v", i, err)}
			}
			if got != c.roots[code(cur)] {
				return &fail{"root", step, fmt.Sprintf("step %d: got %x want %x", i, got, c.roots[code(cur)])}
			}
			committed, croot = cur, got
		case op == opReopen || op == opRestart || op == opFlush:
			if op != opReopen {
				if err := tdb.Commit(croot, false); err != nil {
					return &fail{"flush-error", step, fmt.Sprintf("step %d: %v", i, err)}
				}
			}
			if op == opRestart {
				tdb = trie.NewDatabase(disk)
			}
			if op != opFlush {
				if h, err = open(c.f.secure, croot, tdb, c.limit); err != nil {
					return &fail{"reopen-error", step, fmt.Sprintf("step %d: %v", i, err)}
				}
				cur = committed
			}
		case op == opIterate:
			got, err := iterate(h, nil)
			if err != nil {
				return &fail{"iterate-error", step, fmt.Sprintf("step %d: %v", i, err)}
			}
			if want := sortedModel(h, c.models[code(cur)]); !sameKV(got, want) {
				return &fail{"iterate-content", step, fmt.Sprintf("step %d: got %s want %s", i, fmtKV(got), fmtKV(want))}
			}
		}
	}
	step = "final"
	if len(seq) > 0 {
		step = "final-after-" + opKind(seq[len(seq)-1])
		c.seen[code(cur)*nOps+seq[len(seq)-1]].Store(true)
	}
	if withProofs {
		if f := checkProofs(h, c.models[code(cur)], c.universe, step, nil, nil); f != nil {
			return f
		}
	}
	return checkContent(h, c.models[code(cur)], c.universe, step, false)
}

func seqNames(seq []int) string {
	var s []string
	for _, op := range seq {
		s = append(s, opNames[op])
	}
	return strings.Join(s, ",")
}

func parseSeq(s string) []int {
	var out []int
	if s == "" {
		return out
	}
	for _, n := range strings.Split(s, ",") {
		found := false
		for i, x := range opNames {
			if x == n {
				out = append(out, i)
				found = true
			}
		}
		if !found {
			ev.Broken("unknown op %q in replay", n)
		}
	}
	return out
}

// ---- gc histories ---------------------------------------------------------------------------------

// Ops on one trie.Database holding several committed roots, the way core/blockchain.go uses it:
// commit+Reference(root, {}) keeps a root alive, Dereference(root, {}) releases it, Commit(root) flushes it.
// Every root that is still referenced (or flushed) must reopen to exactly the content it was committed with.
const (
	gcCommitRef = 6 // Commit; Reference(root,{}); remember (root, content)
	gcDerefOld  = 7 // Dereference the oldest live root
	gcDerefNew  = 8 // Dereference the newest live root; the working trie is reopened at the previous live root
	gcFlushNew  = 9 // trie.Database.Commit(newest live root)
	nGcOps      = 10
)

var gcNames = []string{"k0=short", "k0=long", "k0=del", "k1=long", "k1=del", "k2=long", "commit+ref", "deref-oldest", "deref-newest", "flush-newest"}

type liveRoot struct {
	root     common.Hash
	content  [3]uint8
	flushed  bool // written to the disk database by trie.Database.Commit: readable for ever
	dereffed bool // its Reference has been released
}

func (lr *liveRoot) readable() bool { return lr.flushed || !lr.dereffed }

func (c *histCtx) runGC(seq []int) (f *fail) {
	step := "new"
	defer func() {
		if r := recover(); r != nil {
			f = &fail{"panic", step, fmt.Sprint(r)}
		}
	}()
	disk := aquadb.NewMemDatabase()
	tdb := trie.NewDatabase(disk)
	h, err := open(c.f.secure, common.Hash{}, tdb, c.limit)
	if err != nil {
		return &fail{"open-error", "new", err.Error()}
	}
	var cur [3]uint8
	var roots []*liveRoot // in commit order; the working trie builds on the last one
	verify := func(i int) *fail {
		for _, lr := range roots {
			m := c.models[code(lr.content)]
			if len(m) == 0 || !lr.readable() {
				continue
			}
			hh, err := open(c.f.secure, lr.root, tdb, 0)
			if err != nil {
				return &fail{"gc-reopen-error", step, fmt.Sprintf("step %d root %x: %v", i, lr.root[:4], err)}
			}
			for j := 0; j < 3; j++ {
				got, err := hh.get(c.keys[j])
				if err != nil {
					return &fail{"gc-get-error", step, fmt.Sprintf("step %d root %x key %d: %v", i, lr.root[:4], j, err)}
				}
				if want := c.vals[j][lr.content[j]]; !bytes.Equal(got, want) {
					return &fail{"gc-get-value", step, fmt.Sprintf("step %d root %x key %d: got %x want %x", i, lr.root[:4], j, got, want)}
				}
			}
			got, err := iterate(hh, nil)
			if err != nil {
				return &fail{"gc-iterate-error", step, fmt.Sprintf("step %d root %x: %v", i, lr.root[:4], err)}
			}
			if want := sortedModel(hh, m); !sameKV(got, want) {
				return &fail{"gc-iterate-content", step, fmt.Sprintf("step %d root %x: got %s want %s", i, lr.root[:4], fmtKV(got), fmtKV(want))}
			}
		}
		return nil
	}
	// deref releases roots[idx]. When that is the root the working trie builds on and it is not on
	// disk, the working trie continues from the newest root that is still readable (its in-memory
	// nodes may no longer be backed by the database, exactly like a state built on a pruned block).
	deref := func(idx, i int) *fail {
		lr := roots[idx]
		tdb.Dereference(lr.root, common.Hash{})
		lr.dereffed = true
		if idx == len(roots)-1 && !lr.flushed {
			root, content := common.Hash{}, [3]uint8{}
			for j := len(roots) - 1; j >= 0; j-- {
				if roots[j].readable() {
					root, content = roots[j].root, roots[j].content
					// move it to the end: it is the base again
					base := roots[j]
					roots = append(append(roots[:j:j], roots[j+1:]...), base)
					break
				}
			}
			var err error
			if h, err = open(c.f.secure, root, tdb, c.limit); err != nil {
				return &fail{"gc-reopen-error", step, fmt.Sprintf("step %d rebase: %v", i, err)}
			}
			cur = content
		}
		return nil
	}
	for i, op := range seq {
		step = gcNames[op]
		switch op {
		case 0, 1:
			err = h.update(c.keys[0], c.vals[0][op+1])
			cur[0] = uint8(op + 1)
		case 2:
			err = h.del(c.keys[0])
			cur[0] = 0
		case 3:
			err = h.update(c.keys[1], c.vals[1][2])
			cur[1] = 2
		case 4:
			err = h.del(c.keys[1])
			cur[1] = 0
		case 5:
			err = h.update(c.keys[2], c.vals[2][2])
			cur[2] = 2
		case gcCommitRef:
			var root common.Hash
			root, err = h.commit()
			if err == nil {
				if root != c.roots[code(cur)] {
					return &fail{"root", step, fmt.Sprintf("step %d: got %x want %x", i, root, c.roots[code(cur)])}
				}
				tdb.Reference(root, common.Hash{})
				roots = append(roots, &liveRoot{root: root, content: cur})
			}
		case gcDerefOld:
			for idx, lr := range roots {
				if !lr.dereffed {
					if f := deref(idx, i); f != nil {
						return f
					}
					break
				}
			}
		case gcDerefNew:
			for idx := len(roots) - 1; idx >= 0; idx-- {
				if !roots[idx].dereffed {
					if f := deref(idx, i); f != nil {
						return f
					}
					break
				}
			}
		case gcFlushNew:
			if n := len(roots) - 1; n >= 0 && roots[n].readable() {
				if err := tdb.Commit(roots[n].root, false); err != nil {
					return &fail{"flush-error", step, fmt.Sprintf("step %d: %v", i, err)}
				}
				// every committed root with the same hash is on disk now
				for _, lr := range roots {
					if lr.root == roots[n].root {
						lr.flushed = true
					}
				}
			}
		}
		if err != nil {
			return &fail{"update-error", step, fmt.Sprintf("step %d: %v", i, err)}
		}
		if op >= gcCommitRef {
			if f := verify(i); f != nil {
				return f
			}
		}
	}
	step = "final"
	if f := verify(len(seq)); f != nil {
		return f
	}
	// the working trie itself must still be intact: it only builds on readable roots
	return checkContent(h, c.models[code(cur)], c.universe, "gc-final", false)
}

func gcSeqNames(seq []int) string {
	var s []string
	for _, op := range seq {
		s = append(s, gcNames[op])
	}
	return strings.Join(s, ",")
}

func parseGcSeq(s string) []int {
	var out []int
	if s == "" {
		return out
	}
	for _, n := range strings.Split(s, ",") {
		found := false
		for i, x := range gcNames {
			if x == n {
				out = append(out, i)
				found = true
			}
		}
		if !found {
			ev.Broken("unknown gc op %q in replay", n)
		}
	}
	return out
}

// ---- DeriveSha ------------------------------------------------------------------------------------

type rawList [][]byte

func (l rawList) Len() int            { return len(l) }
func (l rawList) GetRlp(i int) []byte { return l[i] }

func deriveItem(kind, i int) []byte {
	switch kind {
	case 0: // one byte
		return []byte{byte(i%127 + 1)}
	case 1: // 40 bytes carrying the index
		b := bytes.Repeat([]byte{0xee}, 40)
		b[0], b[1] = byte(i>>8), byte(i)
		return b
	default: // lengths around the embedding boundary
		return bytes.Repeat([]byte{byte(i + 1)}, 20+i%20)
	}
}

// ---- the check ------------------------------------------------------------------------------------

type reporter struct {
	run *ev.Run
}

// report re-evaluates the case (3x) and reports it when the verdict is stable.
func (r *reporter) report(scenario, caseID string, f *fail, detail map[string]interface{}, again func() *fail) {
	for i := 0; i < 3; i++ {
		g := again()
		if g == nil || g.oracle != f.oracle || g.where != f.where {
			ev.Broken("verdict of %s %v flipped on re-evaluation: first %v then %v", scenario, detail, f, g)
		}
	}
	detail["message"] = f.msg
	detail["where"] = f.where
	r.run.Violate(ev.Violation{Scenario: scenario, Oracle: f.oracle, CaseID: caseID + "/" + f.where, Detail: detail})
}

func scriptDetail(sc *script) map[string]interface{} {
	var u []string
	for _, k := range sc.universe {
		u = append(u, hexs(k))
	}
	return map[string]interface{}{"secure": sc.secure, "mode": sc.mode, "steps": strings.Join(sc.steps, ","),
		"universe": strings.Join(u, ","), "proofs": sc.proofs, "masks": hexs(sc.masks), "noseeks": sc.noSeeks}
}

func scriptFromDetail(d map[string]interface{}) *script {
	sc := &script{}
	sc.secure, _ = d["secure"].(bool)
	if m, ok := d["mode"].(float64); ok {
		sc.mode = int(m)
	}
	if s, _ := d["steps"].(string); s != "" {
		sc.steps = strings.Split(s, ",")
	}
	if s, _ := d["universe"].(string); s != "" || true {
		for _, x := range strings.Split(s, ",") {
			sc.universe = append(sc.universe, unhex(x))
		}
	}
	sc.proofs, _ = d["proofs"].(bool)
	sc.noSeeks, _ = d["noseeks"].(bool)
	if s, _ := d["masks"].(string); s != "" {
		sc.masks = unhex(s)
	}
	return sc
}

func permutations(n int) [][]int {
	var out [][]int
	var rec func(cur []int, used int)
	rec = func(cur []int, used int) {
		if len(cur) == n {
			out = append(out, append([]int(nil), cur...))
			return
		}
		for i := 0; i < n; i++ {
			if used>>i&1 == 0 {
				rec(append(cur, i), used|1<<i)
			}
		}
	}
	rec(nil, 0)
	return out
}

func popcount(x int) int {
	n := 0
	for ; x != 0; x &= x - 1 {
		n++
	}
	return n
}

func TestCheck(t *testing.T) {
	log.Root().SetHandler(log.DiscardHandler())
	debug.SetGCPercent(1000) // tiny live heap, very many short-lived tries
	runtime.MemProfileRate = 0
	run := ev.Start("exploration")
	run.Rule = "order: (family, content set <=4 of 6 keys, value pattern, permutation, extra key, insert/delete positions, delete flavour, hashing mode); " +
		"history/gc: every operation sequence up to the depth bound on a fresh trie+database; derive: list length x item kind; " +
		"sweep: (family, content set, key, value length); proof: (family, content set, pattern, build mode, key, node, byte, mask). " +
		"distinct classes = distinct (family, content, value pattern) tries, distinct final (content, last op) history states, proof shapes"
	run.Assume("keys: variable-length family {'', a, ab, abc, ac, b}, fixed 32-byte family sharing 0/1/2/63 leading nibbles, secure (keccak) family of six 1-byte keys")
	run.Assume("values: 1, 31, 32, 33 bytes, a one-byte value >= 0x80, lengths 1..60 in the sweep; empty value = delete")
	run.Assume("content sets of at most 4 of the 6 family keys (order, proof parts); 3 keys in histories")
	run.Assume("the empty trie is excluded from the proof part: it has no root node, Prove emits nothing and VerifyProof(emptyRoot) reports a missing node")
	run.Assume("altered proof nodes are stored content-addressed (keccak of the altered bytes), as VerifyProof's proofDb contract and trie/proof_test.go do")
	run.Assume("SecureTrie.Prove / VerifyProof take the hashed key (upstream API convention)")
	rep := &reporter{run}

	if d := ev.Replay(); d != nil {
		replay(run, rep, d)
		run.Finish()
	}

	deadline := run.Deadline(85*time.Second, 13*time.Minute)
	expired := func() bool { return time.Now().After(deadline) }

	if pf := os.Getenv("VERIF_C10_PROF"); pf != "" { // development aid
		if fh, err := os.Create(pf); err == nil {
			pprof.StartCPUProfile(fh)
			defer pprof.StopCPUProfile()
		}
	}
	only := os.Getenv("VERIF_C10_PARTS") // development aid: comma separated part names
	timed := func(name string, f func()) {
		if only != "" && !strings.Contains(","+only+",", ","+name+",") {
			run.Cap("part " + name + " not selected (VERIF_C10_PARTS)")
			return
		}
		t0 := time.Now()
		f()
		run.Set("wall_s_"+name, float64(int(time.Since(t0).Seconds()*10))/10)
	}
	timed("derive", func() { partDerive(run, rep) })
	timed("sweep", func() { partSweep(run, rep, expired) })
	timed("gc", func() { partGC(run, rep, expired) })
	timed("many-parents", func() { partManyParents(run) })
	if run.Quick() {
		timed("history", func() { partHistory(run, rep, expired) })
		timed("proof", func() { partProof(run, rep, expired) })
		timed("order", func() { partOrder(run, rep, expired) })
	} else {
		timed("proof", func() { partProof(run, rep, expired) })
		timed("order", func() { partOrder(run, rep, expired) })
		timed("history", func() { partHistory(run, rep, expired) })
	}

	pprof.StopCPUProfile()
	// (trie.CacheUnloads/CacheMisses are metrics counters and read 0 unless metrics are enabled, so they are
	// not reported; that unloading and reloading are driven is shown by the hash-clears-dirty mutant.)
	run.Finish()
}

// ---- part: derive -----------------------------------------------------------------------------------

func partDerive(run *ev.Run, rep *reporter) {
	n := int64(0)
	for kind := 0; kind < 4; kind++ {
		for l := 0; l <= 130; l++ {
			var list types.DerivableList
			var items [][]byte
			if kind < 3 {
				for i := 0; i < l; i++ {
					items = append(items, deriveItem(kind, i))
				}
				list = rawList(items)
			} else {
				var txs types.Transactions
				for i := 0; i < l; i++ {
					txs = append(txs, types.NewTransaction(uint64(i), common.Address{byte(i)}, big.NewInt(int64(i)*1000), 21000, big.NewInt(1), bytes.Repeat([]byte{1}, i%40)))
				}
				for i := range txs {
					items = append(items, txs.GetRlp(i))
				}
				list = txs
			}
			eval := func() *fail {
				return guard("derive", func() *fail {
					got, want := types.DeriveSha(list), common.Hash(refmpt.ListRoot(items))
					if got != want {
						return &fail{"root", "derivesha", fmt.Sprintf("kind %d len %d: got %x want %x", kind, l, got, want)}
					}
					return nil
				})
			}
			n++
			if f := eval(); f != nil {
				bucket := "len<=127"
				if l > 128 {
					bucket = "len>128"
				} else if l == 128 {
					bucket = "len=128"
				}
				rep.report("derive", fmt.Sprintf("kind=%d/%s", kind, bucket), f, map[string]interface{}{"part": "derive", "kind": kind, "len": l}, eval)
			}
			if l == 0 || l == 1 || l == 127 || l == 128 || l == 129 || l == 130 {
				run.Class(fmt.Sprintf("derive/kind=%d/len=%d", kind, l))
			}
		}
	}
	run.Eval(int(n))
	run.Add("derive_lists", n)
	run.Sample(map[string]interface{}{"part": "derive", "lengths": "0..130", "item_kinds": 4})
}

// ---- part: order --------------------------------------------------------------------------------------

type orderCase struct {
	f       *family
	mask    int
	pattern int
}

func (oc *orderCase) members() []int {
	var out []int
	for i := 0; i < 6; i++ {
		if oc.mask>>i&1 == 1 {
			out = append(out, i)
		}
	}
	return out
}

func partOrder(run *ev.Run, rep *reporter, expired func() bool) {
	var cases []orderCase
	for _, f := range families {
		for mask := 0; mask < 64; mask++ {
			if popcount(mask) > 4 {
				continue
			}
			for p := 0; p < nPatterns; p++ {
				cases = append(cases, orderCase{f, mask, p})
			}
		}
	}
	perms := [][][]int{}
	for n := 0; n <= 4; n++ {
		perms = append(perms, permutations(n))
	}
	var total, capped atomic.Int64
	delFlavours := []string{"del", "putnil", "putempty"}
	maxExtra := 4 // largest content set that also gets the insert-then-delete of an extra key
	if run.Quick() {
		maxExtra = 3
	}
	run.Set("order_extra_key_up_to_set_size", maxExtra)
	ev.ParallelFor(len(cases), func(ci int) {
		oc := cases[ci]
		if expired() {
			capped.Add(1)
			return
		}
		mem := oc.members()
		n := len(mem)
		put := func(i int) string {
			return "put:" + hexs(oc.f.keys[i]) + ":" + hexs(val(patKind(oc.pattern, i), i))
		}
		var extras []int
		for i := 0; i < 6; i++ {
			if oc.mask>>i&1 == 0 {
				extras = append(extras, i)
			}
		}
		cnt := 0
		runOne := func(steps []string, mode int, tag string) {
			sc := &script{secure: oc.f.secure, mode: mode, steps: steps, universe: oc.f.keys, noSeeks: strings.HasPrefix(tag, "extra")}
			cnt++
			if f := runScript(sc, nil); f != nil {
				rep.report("order", fmt.Sprintf("fam=%s/mode=%d/%s", oc.f.name, mode, tag), f, withPart(scriptDetail(sc), "script"),
					func() *fail { return runScript(sc, nil) })
			}
		}
		for _, perm := range perms[n] {
			base := make([]string, n)
			for j, pi := range perm {
				base[j] = put(mem[pi])
			}
			for mode := 0; mode < 3; mode++ {
				runOne(base, mode, "plain")
			}
			// overwrite variant: every key first receives another value, then the final one
			{
				var steps []string
				for _, pi := range perm {
					steps = append(steps, "put:"+hexs(oc.f.keys[mem[pi]])+":"+hexs(val(1+(patKind(oc.pattern, mem[pi]))%nValueKinds, mem[pi]+1)))
				}
				steps = append(steps, base...)
				for mode := 0; mode < 3; mode++ {
					runOne(steps, mode, "overwrite")
				}
			}
			for _, x := range extras {
				if n > maxExtra {
					break
				}
				for a := 0; a <= n; a++ { // the extra key is inserted before base[a]
					for b := a; b <= n; b++ { // and deleted before base[b] (after the insert)
						for fi, fl := range delFlavours {
							steps := make([]string, 0, n+2)
							for j := 0; j <= n; j++ {
								if j == a {
									steps = append(steps, put(x))
								}
								if j == b {
									steps = append(steps, fl+":"+hexs(oc.f.keys[x]))
								}
								if j < n {
									steps = append(steps, base[j])
								}
							}
							// all three modes for TryDelete; the Update(empty) flavours in the commit mode only
							// (quick: modes 0 and 2 only, Update(empty) flavours for sets of <= 2 keys only)
							if fi == 0 {
								for mode := 0; mode < 3; mode++ {
									if mode == 1 && run.Quick() {
										continue
									}
									runOne(steps, mode, "extra")
								}
							} else if !run.Quick() || n <= 2 {
								runOne(steps, 2, "extra-"+fl)
							}
						}
					}
				}
			}
		}
		total.Add(int64(cnt))
		run.Eval(cnt)
		if n >= 2 {
			run.Class(fmt.Sprintf("content/%s/%02x/p%d", oc.f.name, oc.mask, oc.pattern))
		}
	})
	if capped.Load() > 0 {
		run.Cap(fmt.Sprintf("order: deadline, %d of %d content cases skipped", capped.Load(), len(cases)))
	}
	run.Add("order_scripts", total.Load())
	run.Sample(map[string]interface{}{"part": "order", "content_cases": len(cases), "scripts": total.Load()})
}

func withPart(d map[string]interface{}, part string) map[string]interface{} {
	d["part"] = part
	return d
}

// ---- part: sweep ----------------------------------------------------------------------------------------

func partSweep(run *ev.Run, rep *reporter, expired func() bool) {
	type sw struct {
		f    *family
		mask int
	}
	var cases []sw
	maxSet := 3
	if run.Quick() {
		maxSet = 2
	}
	for _, f := range families {
		for mask := 1; mask < 64; mask++ {
			if popcount(mask) <= maxSet {
				cases = append(cases, sw{f, mask})
			}
		}
	}
	var total, capped atomic.Int64
	ev.ParallelFor(len(cases), func(ci int) {
		c := cases[ci]
		if expired() {
			capped.Add(1)
			return
		}
		cnt := 0
		for target := 0; target < 6; target++ {
			if c.mask>>target&1 == 0 {
				continue
			}
			for l := 1; l <= 60; l++ {
				var steps []string
				for i := 0; i < 6; i++ {
					if c.mask>>i&1 == 1 {
						v := val(1, i)
						if i == target {
							v = bytes.Repeat([]byte{byte(0xa0 + i)}, l)
						}
						steps = append(steps, "put:"+hexs(c.f.keys[i])+":"+hexs(v))
					}
				}
				for _, mode := range []int{0, 3} {
					sc := &script{secure: c.f.secure, mode: mode, steps: steps, universe: c.f.keys, proofs: true}
					cnt++
					if f := runScript(sc, nil); f != nil {
						rep.report("sweep", fmt.Sprintf("fam=%s/mode=%d/%s", c.f.name, mode, lenBucket(l)), f, withPart(scriptDetail(sc), "script"),
							func() *fail { return runScript(sc, nil) })
					}
				}
			}
		}
		total.Add(int64(cnt))
		run.Eval(cnt)
	})
	if capped.Load() > 0 {
		run.Cap(fmt.Sprintf("sweep: deadline, %d of %d cases skipped", capped.Load(), len(cases)))
	}
	run.Add("sweep_scripts", total.Load())
}

func lenBucket(l int) string {
	switch {
	case l < 28:
		return "len<28"
	case l <= 33:
		return "len=28..33"
	case l <= 55:
		return "len=34..55"
	}
	return "len>55"
}

// ---- part: proof ------------------------------------------------------------------------------------------

func partProof(run *ev.Run, rep *reporter, expired func() bool) {
	// quick: three XOR masks per byte; thorough: all 255 for content sets of <= 2 keys, the eight
	// single-bit masks and 0xff for sets of 3 and 4
	masks := []byte{0x01, 0x80, 0xff}
	masks4 := masks
	if run.Thorough() {
		masks = nil
		for m := 1; m < 256; m++ {
			masks = append(masks, byte(m))
		}
		masks4 = []byte{1, 2, 4, 8, 16, 32, 64, 128, 0xff}
	}
	var cases []orderCase
	for _, f := range families {
		for mask := 1; mask < 64; mask++ {
			if popcount(mask) > 4 {
				continue
			}
			for p := 0; p < nPatterns; p++ {
				cases = append(cases, orderCase{f, mask, p})
			}
		}
	}
	var verifs, capped atomic.Int64
	stats := make([]*proofStats, len(cases))
	ev.ParallelFor(len(cases), func(ci int) {
		oc := cases[ci]
		if expired() {
			capped.Add(1)
			return
		}
		st := &proofStats{classes: map[string]struct{}{}}
		stats[ci] = st
		var steps []string
		for _, i := range oc.members() {
			steps = append(steps, "put:"+hexs(oc.f.keys[i])+":"+hexs(val(patKind(oc.pattern, i), i)))
		}
		mk := masks
		if popcount(oc.mask) >= 3 {
			mk = masks4
		}
		for _, mode := range []int{0, 3} {
			sc := &script{secure: oc.f.secure, mode: mode, steps: steps, universe: oc.f.keys, proofs: true, masks: mk}
			if f := runScript(sc, st); f != nil {
				rep.report("proof", fmt.Sprintf("fam=%s/mode=%d", oc.f.name, mode), f, withPart(scriptDetail(sc), "script"),
					func() *fail { return runScript(sc, nil) })
			}
		}
		verifs.Add(st.verifications)
		run.Eval(int(st.verifications))
	})
	for _, st := range stats {
		if st != nil {
			for k := range st.classes {
				run.Class(k)
			}
		}
	}
	if capped.Load() > 0 {
		run.Cap(fmt.Sprintf("proof: deadline, %d of %d cases skipped", capped.Load(), len(cases)))
	}
	run.Add("proof_verifications", verifs.Load())
	run.Set("proof_alteration_masks_per_byte", len(masks))
	run.Set("proof_alteration_masks_per_byte_sets_of_3_and_4", len(masks4))
	run.Sample(map[string]interface{}{"part": "proof", "content_cases": len(cases), "verifications": verifs.Load(), "masks": len(masks)})
}

// ---- part: history ------------------------------------------------------------------------------------------

func pow(a, n int) int {
	r := 1
	for i := 0; i < n; i++ {
		r *= a
	}
	return r
}

// enumerate runs f on every sequence over alpha of length exactly l, in parallel blocks.
func enumerate(alpha []int, l int, expired func() bool, f func(seq []int)) (done, skipped int64) {
	total := pow(len(alpha), l)
	const block = 2048
	nb := (total + block - 1) / block
	var d, s atomic.Int64
	ev.ParallelFor(nb, func(b int) {
		lo, hi := b*block, (b+1)*block
		if hi > total {
			hi = total
		}
		if expired() {
			s.Add(int64(hi - lo))
			return
		}
		seq := make([]int, l)
		for x := lo; x < hi; x++ {
			y := x
			for i := l - 1; i >= 0; i-- {
				seq[i] = alpha[y%len(alpha)]
				y /= len(alpha)
			}
			f(seq)
		}
		d.Add(int64(hi - lo))
	})
	return d.Load(), s.Load()
}

func cacheOp(op int) bool { return op >= opCommit0 && op <= opRestart }

func partHistory(run *ev.Run, rep *reporter, expired func() bool) {
	type plan struct {
		f       *family
		limit   uint16
		reduced bool
		from    int
		depth   int
	}
	var plans []plan
	V, F, S := famByName("V"), famByName("F"), famByName("S")
	sec := func(d int) {
		for _, lim := range []uint16{0, 1, 2} {
			plans = append(plans, plan{S, lim, false, 1, d})
		}
	}
	if run.Quick() {
		// full alphabets: V to depth 4, F to depth 5; secure family to depth 4
		plans = append(plans, plan{V, 0, false, 1, 4}, plan{F, 0, false, 1, 5})
		sec(4)
	} else {
		// full alphabets to depth 5, secure to 5, then the reduced alphabet (2 keys, 11 operations) at
		// depth 6 for V, and last - so that a deadline only cuts the deepest level - F at depth 6 in full
		plans = append(plans, plan{V, 0, false, 1, 5}, plan{F, 0, false, 1, 5})
		sec(5)
		plans = append(plans, plan{V, 0, true, 6, 6}, plan{F, 0, false, 6, 6})
	}
	var total int64
	for _, p := range plans {
		ctx := newHistCtx(p.f, p.limit, false)
		alpha := alphabet(p.f, p.reduced)
		for l := p.from; l <= p.depth; l++ {
			done, skipped := enumerate(alpha, l, expired, func(seq []int) {
				last := seq[len(seq)-1]
				withProofs := cacheOp(last) && !run.Quick() // quick: proofs on reloaded tries are covered by the mode-3 scripts only
				if f := ctx.runHistory(seq, withProofs); f != nil {
					cp := append([]int(nil), seq...)
					rep.report("history", fmt.Sprintf("fam=%s", p.f.name), f,
						map[string]interface{}{"part": "history", "family": p.f.name, "limit": int(p.limit), "seq": seqNames(cp), "proofs": withProofs},
						func() *fail { return ctx.runHistory(cp, withProofs) })
				}
			})
			total += done
			run.Eval(int(done))
			if skipped > 0 {
				run.Cap(fmt.Sprintf("history: deadline, family %s reduced=%v length %d: %d of %d sequences skipped", p.f.name, p.reduced, l, skipped, done+skipped))
			}
		}
		for i := range ctx.seen {
			if ctx.seen[i].Load() && i/nOps != 0 {
				run.Class(fmt.Sprintf("history/%s/content=%d/last=%s", p.f.name, i/nOps, opNames[i%nOps]))
			}
		}
		run.Set(fmt.Sprintf("history_lengths_%s_limit%d_reduced%v_from%d", p.f.name, p.limit, p.reduced, p.from), p.depth)
		run.Set(fmt.Sprintf("history_alphabet_%s_reduced%v", p.f.name, p.reduced), len(alpha))
	}
	run.Add("history_sequences", total)
	run.Sample(map[string]interface{}{"part": "history", "example": "k0=long,commit/limit0,commit/limit0,k1=short,restart,getall", "sequences": total})
}

// ---- part: gc ---------------------------------------------------------------------------------------------------

func partGC(run *ev.Run, rep *reporter, expired func() bool) {
	depth := 5
	if run.Thorough() {
		depth = 6
	}
	alpha := make([]int, nGcOps)
	for i := range alpha {
		alpha[i] = i
	}
	var total int64
	for _, f := range families {
		if f.secure {
			continue
		}
		ctx := newHistCtx(f, 0, true)
		for l := 1; l <= depth; l++ {
			done, skipped := enumerate(alpha, l, expired, func(seq []int) {
				if seq[len(seq)-1] < gcCommitRef {
					return // a trailing update cannot change what the database holds
				}
				if f2 := ctx.runGC(seq); f2 != nil {
					cp := append([]int(nil), seq...)
					rep.report("gc", fmt.Sprintf("fam=%s", f.name), f2,
						map[string]interface{}{"part": "gc", "family": f.name, "seq": gcSeqNames(cp)},
						func() *fail { return ctx.runGC(cp) })
				}
			})
			total += done
			run.Eval(int(done))
			if skipped > 0 {
				run.Cap(fmt.Sprintf("gc: deadline, family %s length %d: %d of %d sequences skipped", f.name, l, skipped, done+skipped))
			}
			run.Class(fmt.Sprintf("gc/%s/len=%d", f.name, l))
		}
	}
	run.Set("gc_depth", depth)
	run.Add("gc_sequences", total)
}

// ---- replay -------------------------------------------------------------------------------------------------------

func replay(run *ev.Run, rep *reporter, d *ev.ReplayDoc) {
	part, _ := d.Detail["part"].(string)
	var again func() *fail
	switch part {
	case "many-parents":
		partManyParents(run)
		return
	case "script":
		sc := scriptFromDetail(d.Detail)
		again = func() *fail { return runScript(sc, nil) }
	case "history":
		f := famByName(d.Detail["family"].(string))
		lim, _ := d.Detail["limit"].(float64)
		ctx := newHistCtx(f, uint16(lim), false)
		seq := parseSeq(d.Detail["seq"].(string))
		proofs, _ := d.Detail["proofs"].(bool)
		again = func() *fail { return ctx.runHistory(seq, proofs) }
	case "gc":
		f := famByName(d.Detail["family"].(string))
		ctx := newHistCtx(f, 0, true)
		seq := parseGcSeq(d.Detail["seq"].(string))
		again = func() *fail { return ctx.runGC(seq) }
	case "derive":
		kind, l := int(d.Detail["kind"].(float64)), int(d.Detail["len"].(float64))
		again = func() *fail {
			return guard("derive", func() *fail {
				var items [][]byte
				var list types.DerivableList
				if kind < 3 {
					for i := 0; i < l; i++ {
						items = append(items, deriveItem(kind, i))
					}
					list = rawList(items)
				} else {
					var txs types.Transactions
					for i := 0; i < l; i++ {
						txs = append(txs, types.NewTransaction(uint64(i), common.Address{byte(i)}, big.NewInt(int64(i)*1000), 21000, big.NewInt(1), bytes.Repeat([]byte{1}, i%40)))
					}
					for i := range txs {
						items = append(items, txs.GetRlp(i))
					}
					list = txs
				}
				if got, want := types.DeriveSha(list), common.Hash(refmpt.ListRoot(items)); got != want {
					return &fail{"root", "derivesha", fmt.Sprintf("kind %d len %d: got %x want %x", kind, l, got, want)}
				}
				return nil
			})
		}
	default:
		ev.Broken("replay: unknown part %q", part)
	}
	run.Eval(1)
	if f := again(); f != nil {
		d.Detail["message"] = f.msg
		run.Violate(ev.Violation{Scenario: d.Scenario, Oracle: d.Oracle, CaseID: d.CaseID, Detail: d.Detail})
	}
}
