package c10

// Part "many-parents": one scripted history with sizes far outside the small scope (like the crowd shape
// of C19): 65537 committed tries that differ in one key and share the leaf of another, all kept alive in
// one in-memory trie database; then one of them is garbage collected. Every other root must still reopen
// to its content (a node's parent count is not bounded by any machine-word narrower than the number of
// tries that can reference it).

import (
	"bytes"
	"encoding/binary"
	"fmt"

	"gitlab.com/aquachain/aquachain/aquadb"
	"gitlab.com/aquachain/aquachain/common"
	"gitlab.com/aquachain/aquachain/trie"
	"gitlab.com/aquachain/aquachain/zzverif/ev"
)

func partManyParents(run *ev.Run) {
	const versions = 1<<16 + 1
	triedb := trie.NewDatabase(aquadb.NewMemDatabase())
	sharedKey, ownKey := []byte("b-the-key-every-version-has"), []byte("a-the-key-that-differs")
	sharedVal := bytes.Repeat([]byte{0xbb}, 40)
	ownVal := func(i int) []byte {
		v := bytes.Repeat([]byte{0xaa}, 40)
		binary.BigEndian.PutUint32(v, uint32(i))
		return v
	}
	roots := make([]common.Hash, versions)
	for i := 0; i < versions; i++ {
		tr, err := trie.New(common.Hash{}, triedb)
		if err != nil {
			ev.Broken("many-parents: %v", err)
		}
		tr.Update(ownKey, ownVal(i))
		tr.Update(sharedKey, sharedVal)
		root, err := tr.Commit(nil)
		if err != nil {
			ev.Broken("many-parents: commit: %v", err)
		}
		triedb.Reference(root, common.Hash{})
		roots[i] = root
	}
	triedb.Dereference(roots[0], common.Hash{})
	n := 0
	for _, i := range []int{1, 2, versions / 2, versions - 2, versions - 1} {
		n++
		msg := ""
		tr, err := trie.New(roots[i], triedb)
		if err != nil {
			msg = fmt.Sprintf("version %d cannot be reopened: %v", i, err)
		} else {
			for _, kv := range [][2][]byte{{ownKey, ownVal(i)}, {sharedKey, sharedVal}} {
				if got, err := tr.TryGet(kv[0]); err != nil || !bytes.Equal(got, kv[1]) {
					msg = fmt.Sprintf("version %d: Get(%q) = %x, %v", i, kv[0], got, err)
					break
				}
			}
		}
		if msg != "" {
			run.Violate(ev.Violation{Scenario: "many-parents", Oracle: "referenced-root-reopens-after-gc-of-another", CaseID: "65537-versions",
				Detail: map[string]interface{}{"part": "many-parents", "message": "after garbage collection of version 0 (all others still referenced): " + msg}})
			break
		}
	}
	run.Eval(n)
	run.Class("many-parents/reopened")
	run.Set("many_parents_versions", versions)
}
