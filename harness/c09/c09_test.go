// C09 - state snapshots revert exactly and the state root commits to content only.
//
// Engine E2: exhaustive operation sequences over the real core/state.StateDB on
// state.NewDatabase(aquadb.NewMemDatabase()), with almost model-free oracles (DESIGN.md section 4 / C09):
//
//	root      after IntermediateRoot / Commit the root equals refmpt (Yellow Paper appendix D, independent
//	          of /repo/trie and /repo/rlp) over the "observable dump" taken through the public getters:
//	          secure-trie keys keccak(address) / keccak(slot), account RLP [nonce, balance, storageRoot,
//	          codeHash], storage values RLP strings with leading zeros trimmed. Two histories with equal
//	          dumps therefore get the same root (history independence).
//	erase-*   twin instance: the same sequence with one construct erased must be observably equivalent -
//	            revert:  [snapshot i .. RevertToSnapshot(i)] removed  (revert restores exactly)
//	            copy:    "continue on Copy()" removed                 (a copy reads back identically)
//	            reopen:  "continue on state.New(committed root)" removed (logs excepted)
//	            readall: a full read through the getters removed      (reads are transparent)
//	          compared on the observable dump at the end of the sequence and again, together with the
//	          root, after a closing IntermediateRoot(true).
//	rawdump   RawDump of the state after Commit lists exactly the accounts of the observable dump.
//
// The harness has no model of what an operation does; it only knows which sequences are well formed
// (revert only to a live snapshot, SubBalance only when the balance read back is sufficient).
package c09

import (
	"bytes"
	"fmt"
	"math/big"
	"os"
	"runtime"
	"runtime/debug"
	"runtime/pprof"
	"sort"
	"strings"
	"sync"
	"sync/atomic"
	"testing"
	"time"

	"gitlab.com/aquachain/aquachain/aquadb"
	"gitlab.com/aquachain/aquachain/common"
	"gitlab.com/aquachain/aquachain/common/log"
	"gitlab.com/aquachain/aquachain/core/state"
	"gitlab.com/aquachain/aquachain/core/types"
	"gitlab.com/aquachain/aquachain/zzverif/ev"
	"gitlab.com/aquachain/aquachain/zzverif/ref/refmpt"
)

// ---- universe -------------------------------------------------------------------------------------

var (
	// A1: contract with balance, nonce, code and storage in the base state; A2: an account that exists in
	// the base trie but is empty (pre-EIP-158 leftovers / zero-balance genesis allocations); F: absent.
	// None of them is the RIPEMD precompile 0x..03, whose touch-revert exception is protocol-mandated.
	addrs     = [3]common.Address{common.HexToAddress("0xa100000000000000000000000000000000000001"), common.HexToAddress("0xa200000000000000000000000000000000000002"), common.HexToAddress("0xf000000000000000000000000000000000000009")}
	addrNames = [3]string{"A1", "A2", "F"}
	slots     = [2]common.Hash{common.HexToHash("0x00"), common.HexToHash("0x01")}
	codeA     = []byte{0x60, 0x00}
	codeB     = []byte{0x60, 0x01, 0x00}
	thash     = common.HexToHash("0x7100000000000000000000000000000000000000000000000000000000000071")
	bhash     = common.HexToHash("0xb100000000000000000000000000000000000000000000000000000000000b1")
)

func hv(n int64) common.Hash { return common.BigToHash(big.NewInt(n)) }

// ---- observable dump --------------------------------------------------------------------------------

type acct struct {
	Exist, Empty, Suicided bool
	Balance                string
	Nonce                  uint64
	Code                   string
	CodeHash               common.Hash
	CodeSize               int
	Slots                  [2]common.Hash
}

type dump struct {
	Accts  [3]acct
	Refund uint64
	Logs   []string
}

func takeDump(s *state.StateDB) *dump {
	d := &dump{}
	for i, a := range addrs {
		x := &d.Accts[i]
		x.Exist, x.Empty, x.Suicided = s.Exist(a), s.Empty(a), s.HasSuicided(a)
		x.Balance, x.Nonce = s.GetBalance(a).String(), s.GetNonce(a)
		x.Code, x.CodeHash, x.CodeSize = string(s.GetCode(a)), s.GetCodeHash(a), s.GetCodeSize(a)
		for j, sl := range slots {
			x.Slots[j] = s.GetState(a, sl)
		}
	}
	d.Refund = s.GetRefund()
	for _, l := range s.Logs() {
		d.Logs = append(d.Logs, fmt.Sprintf("%x/%x/%x/i%d/t%d/%x", l.Address, l.Topics, l.Data, l.Index, l.TxIndex, l.TxHash[:2]))
	}
	return d
}

// diff names the first observable difference ("" when equal). Logs can be excluded.
func (d *dump) diff(o *dump, withLogs bool) (field, msg string) {
	for i := range d.Accts {
		a, b := d.Accts[i], o.Accts[i]
		n := addrNames[i]
		switch {
		case a.Exist != b.Exist:
			return "exist", fmt.Sprintf("%s Exist %v vs %v", n, a.Exist, b.Exist)
		case a.Empty != b.Empty:
			return "empty", fmt.Sprintf("%s Empty %v vs %v", n, a.Empty, b.Empty)
		case a.Suicided != b.Suicided:
			return "suicided", fmt.Sprintf("%s HasSuicided %v vs %v", n, a.Suicided, b.Suicided)
		case a.Balance != b.Balance:
			return "balance", fmt.Sprintf("%s balance %s vs %s", n, a.Balance, b.Balance)
		case a.Nonce != b.Nonce:
			return "nonce", fmt.Sprintf("%s nonce %d vs %d", n, a.Nonce, b.Nonce)
		case a.Code != b.Code || a.CodeHash != b.CodeHash || a.CodeSize != b.CodeSize:
			return "code", fmt.Sprintf("%s code %x/%x/%d vs %x/%x/%d", n, a.Code, a.CodeHash[:4], a.CodeSize, b.Code, b.CodeHash[:4], b.CodeSize)
		case a.Slots != b.Slots:
			return "storage", fmt.Sprintf("%s storage %x,%x vs %x,%x", n, a.Slots[0].Big(), a.Slots[1].Big(), b.Slots[0].Big(), b.Slots[1].Big())
		}
	}
	if d.Refund != o.Refund {
		return "refund", fmt.Sprintf("refund %d vs %d", d.Refund, o.Refund)
	}
	if withLogs && strings.Join(d.Logs, ";") != strings.Join(o.Logs, ";") {
		return "logs", fmt.Sprintf("logs %v vs %v", d.Logs, o.Logs)
	}
	return "", ""
}

// selfCheck: relations between getters that hold for any account by their documentation.
func (d *dump) selfCheck() string {
	for i, a := range d.Accts {
		n := addrNames[i]
		if a.CodeSize != len(a.Code) {
			return fmt.Sprintf("%s GetCodeSize %d but len(GetCode) %d", n, a.CodeSize, len(a.Code))
		}
		if a.Exist {
			if want := common.Hash(refmpt.Keccak256([]byte(a.Code))); a.CodeHash != want {
				return fmt.Sprintf("%s GetCodeHash %x but keccak(GetCode) %x", n, a.CodeHash, want)
			}
			if e := a.Nonce == 0 && a.Balance == "0" && len(a.Code) == 0; e != a.Empty {
				return fmt.Sprintf("%s Empty()=%v but nonce %d balance %s code %x", n, a.Empty, a.Nonce, a.Balance, a.Code)
			}
		} else {
			if !a.Empty || a.Balance != "0" || a.Nonce != 0 || a.Code != "" || a.Slots != [2]common.Hash{} || a.Suicided || a.CodeHash != (common.Hash{}) {
				return fmt.Sprintf("%s does not exist but reads back %+v", n, a)
			}
		}
	}
	return ""
}

var stateRootMemo sync.Map

// refStateRoot is the root the specification defines for the accounts of the dump that exist.
func refStateRoot(d *dump) common.Hash {
	var kb bytes.Buffer
	for _, a := range d.Accts {
		if !a.Exist {
			kb.WriteString("-|")
			continue
		}
		fmt.Fprintf(&kb, "%s,%d,%x,%x,%x|", a.Balance, a.Nonce, a.Code, a.Slots[0], a.Slots[1])
	}
	if r, ok := stateRootMemo.Load(kb.String()); ok {
		return r.(common.Hash)
	}
	m := map[string][]byte{}
	for i, a := range d.Accts {
		if !a.Exist {
			continue
		}
		sm := map[string][]byte{}
		for j, v := range a.Slots {
			if v != (common.Hash{}) {
				sm[string(slots[j][:])] = refmpt.RlpBig(v[:])
			}
		}
		sroot := refmpt.SecureRoot(sm)
		ch := refmpt.Keccak256([]byte(a.Code))
		bal, _ := new(big.Int).SetString(a.Balance, 10)
		m[string(addrs[i][:])] = refmpt.RlpList(refmpt.RlpUint(a.Nonce), refmpt.RlpBig(bal.Bytes()), refmpt.RlpString(sroot[:]), refmpt.RlpString(ch[:]))
	}
	r := common.Hash(refmpt.SecureRoot(m))
	stateRootMemo.Store(kb.String(), r)
	return r
}

// ---- base state -----------------------------------------------------------------------------------------

type baseState struct {
	root common.Hash
	keys [][]byte
	vals [][]byte
}

var base *baseState

// buildBase commits A1 (balance 2, nonce 1, code A, slot0=1) and the empty A2 with deleteEmptyObjects=false,
// flushes to a disk database and records its raw content, so that every run starts from a freshly
// opened database that holds nothing in memory.
func buildBase() *baseState {
	disk := aquadb.NewMemDatabase()
	sdb := state.NewDatabase(disk)
	s, err := state.New(common.Hash{}, sdb)
	if err != nil {
		ev.Broken("base: %v", err)
	}
	s.SetBalance(addrs[0], big.NewInt(2))
	s.SetNonce(addrs[0], 1)
	s.SetCode(addrs[0], codeA)
	s.SetState(addrs[0], slots[0], hv(1))
	s.CreateAccount(addrs[1])
	root, err := s.Commit(false)
	if err != nil {
		ev.Broken("base commit: %v", err)
	}
	if err := sdb.TrieDB().Commit(root, false); err != nil {
		ev.Broken("base flush: %v", err)
	}
	b := &baseState{root: root}
	base = b
	ks := disk.Keys()
	sort.Slice(ks, func(i, j int) bool { return bytes.Compare(ks[i], ks[j]) < 0 })
	for _, k := range ks {
		v, _ := disk.Get(k)
		b.keys, b.vals = append(b.keys, k), append(b.vals, v)
	}
	// the base itself must satisfy the root oracle, otherwise nothing below means anything
	w := newWorld()
	d := takeDump(w.st)
	if !d.Accts[0].Exist || !d.Accts[1].Exist || d.Accts[2].Exist || !d.Accts[1].Empty {
		ev.Broken("base state reads back unexpectedly: %+v", d)
	}
	return b
}

// ---- world and operations ---------------------------------------------------------------------------------

type world struct {
	disk *aquadb.MemDatabase
	sdb  state.Database
	st   *state.StateDB
	live []int // live snapshot ids, oldest first

	lastRoot common.Hash // root returned by the last operation, if it returned one
	hasRoot  bool
	rootOp   string
	commits  []common.Hash // roots committed into the current state.Database, oldest first
	asides   []aside       // states set aside by copy / fork with what they read back at that moment
}

type aside struct {
	st   *state.StateDB
	was  *dump
	what string
}

func newWorld() *world {
	w := &world{disk: aquadb.NewMemDatabase()}
	if base != nil {
		for i := range base.keys {
			w.disk.Put(base.keys[i], base.vals[i])
		}
	}
	w.sdb = state.NewDatabase(w.disk)
	root := common.Hash{}
	if base != nil {
		root = base.root
	}
	var err error
	if w.st, err = state.New(root, w.sdb); err != nil {
		ev.Broken("cannot open base state: %v", err)
	}
	w.st.Prepare(thash, bhash, 0)
	return w
}

type opKind int

const (
	kMut opKind = iota
	kSnap
	kRevNewest
	kRevOldest
	kFin
	kCommit
	kCopy
	kReopen
	kReadAll
	kFork
)

type op struct {
	name string
	kind opKind
	fn   func(w *world) error
}

func (w *world) setRoot(r common.Hash, name string) {
	w.lastRoot, w.hasRoot, w.rootOp = r, true, name
	if name == "Commit" {
		w.commits = append(w.commits, r)
	}
}

func mut(name string, f func(s *state.StateDB)) op {
	return op{name, kMut, func(w *world) error { f(w.st); return nil }}
}

func opsFor(x int) map[string]op {
	a, n := addrs[x], addrNames[x]
	m := map[string]op{}
	add := func(o op) { m[o.name] = o }
	add(mut("create("+n+")", func(s *state.StateDB) { s.CreateAccount(a) }))
	add(mut("add0("+n+")", func(s *state.StateDB) { s.AddBalance(a, new(big.Int)) }))
	add(mut("add1("+n+")", func(s *state.StateDB) { s.AddBalance(a, big.NewInt(1)) }))
	add(mut("sub1("+n+")", func(s *state.StateDB) {
		// like core.CanTransfer: read first, only subtract what is there
		if s.GetBalance(a).Sign() > 0 {
			s.SubBalance(a, big.NewInt(1))
		}
	}))
	add(mut("setbal0("+n+")", func(s *state.StateDB) { s.SetBalance(a, new(big.Int)) }))
	add(mut("setbal2("+n+")", func(s *state.StateDB) { s.SetBalance(a, big.NewInt(2)) }))
	add(mut("nonce0("+n+")", func(s *state.StateDB) { s.SetNonce(a, 0) }))
	add(mut("nonce1("+n+")", func(s *state.StateDB) { s.SetNonce(a, 1) }))
	add(mut("code0("+n+")", func(s *state.StateDB) { s.SetCode(a, nil) }))
	add(mut("codeA("+n+")", func(s *state.StateDB) { s.SetCode(a, codeA) }))
	add(mut("codeB("+n+")", func(s *state.StateDB) { s.SetCode(a, codeB) }))
	for si := range slots {
		for v := int64(0); v < 3; v++ {
			sl, vv := slots[si], hv(v)
			add(mut(fmt.Sprintf("st(%s,%d,%d)", n, si, v), func(s *state.StateDB) { s.SetState(a, sl, vv) }))
		}
	}
	// boundary values of the storage value encoding (single byte below / at 0x80, two bytes, a full word)
	for _, v := range []int64{127, 128, 256} {
		sl, vv := slots[1], hv(v)
		add(mut(fmt.Sprintf("st(%s,1,%d)", n, v), func(s *state.StateDB) { s.SetState(a, sl, vv) }))
	}
	full := common.HexToHash("0xff00000000000000000000000000000000000000000000000000000000000080")
	add(mut("st("+n+",1,full)", func(s *state.StateDB) { s.SetState(a, slots[1], full) }))
	add(mut("suicide("+n+")", func(s *state.StateDB) { s.Suicide(a) }))
	return m
}

func globalOps() map[string]op {
	m := map[string]op{}
	add := func(o op) { m[o.name] = o }
	add(mut("logrefund", func(s *state.StateDB) {
		s.AddLog(&types.Log{Address: addrs[0], Topics: []common.Hash{hv(7)}, Data: []byte{1, 2}})
		s.AddRefund(3)
	}))
	add(op{"snap", kSnap, func(w *world) error { w.live = append(w.live, w.st.Snapshot()); return nil }})
	add(op{"revN", kRevNewest, func(w *world) error {
		n := len(w.live) - 1
		w.st.RevertToSnapshot(w.live[n])
		w.live = w.live[:n]
		return nil
	}})
	add(op{"revO", kRevOldest, func(w *world) error {
		w.st.RevertToSnapshot(w.live[0])
		w.live = w.live[:0]
		return nil
	}})
	for _, de := range []bool{true, false} {
		de := de
		add(op{fmt.Sprintf("fin(%v)", de), kFin, func(w *world) error {
			w.setRoot(w.st.IntermediateRoot(de), "IntermediateRoot")
			w.live = w.live[:0]
			return nil
		}})
		add(op{fmt.Sprintf("commit(%v)", de), kCommit, func(w *world) error {
			r, err := w.st.Commit(de)
			if err != nil {
				return err
			}
			w.setRoot(r, "Commit")
			w.live = w.live[:0]
			return nil
		}})
		// commit, then continue on a state opened at the committed root from the same state.Database
		// (which serves the main trie from its cache of past tries)
		add(op{fmt.Sprintf("reopen-cached(%v)", de), kReopen, func(w *world) error {
			r, err := w.st.Commit(de)
			if err != nil {
				return err
			}
			if w.st, err = state.New(r, w.sdb); err != nil {
				return fmt.Errorf("state.New(%x): %v", r[:4], err)
			}
			w.st.Prepare(thash, bhash, 0)
			w.setRoot(r, "Commit")
			w.live = w.live[:0]
			return nil
		}})
		// commit, flush the trie database to disk, then continue on a fresh state.Database over that disk
		add(op{fmt.Sprintf("reopen-disk(%v)", de), kReopen, func(w *world) error {
			r, err := w.st.Commit(de)
			if err != nil {
				return err
			}
			if err := w.sdb.TrieDB().Commit(r, false); err != nil {
				return err
			}
			w.sdb = state.NewDatabase(w.disk)
			if w.st, err = state.New(r, w.sdb); err != nil {
				return fmt.Errorf("state.New(%x) after flush: %v", r[:4], err)
			}
			w.st.Prepare(thash, bhash, 0)
			w.commits = nil // older roots were not flushed and are not expected in the fresh database
			w.setRoot(r, "Commit")
			w.live = w.live[:0]
			return nil
		}})
	}
	// in the erased twin a reopen is a plain commit
	add(op{"copy", kCopy, func(w *world) error {
		w.asides = append(w.asides, aside{w.st, takeDump(w.st), "original left behind by copy"})
		w.st = w.st.Copy()
		w.st.Prepare(thash, bhash, 0) // Copy does not carry the per-transaction context; callers Prepare per tx
		w.live = w.live[:0]           // "Snapshots of the copied state cannot be applied to the copy"
		return nil
	}})
	// take a copy, set it aside, continue on the original: the copy must keep reading back what it read
	// when it was taken, whatever happens to the original (and taking it must be transparent)
	add(op{"fork", kFork, func(w *world) error {
		c := w.st.Copy()
		w.asides = append(w.asides, aside{c, takeDump(c), "copy set aside by fork"})
		return nil
	}})
	add(mut("logB", func(s *state.StateDB) {
		s.AddLog(&types.Log{Address: addrs[1], Topics: []common.Hash{hv(8), hv(9)}, Data: []byte{3}})
	}))
	add(op{"readall", kReadAll, func(w *world) error { takeDump(w.st); return nil }})
	return m
}

type family struct {
	name    string
	targets []int // X
	names   []string
}

var familyDefs = []family{
	// small families first: under a time cap the large ones are the ones cut short
	{"F8-code", []int{0, 2}, []string{"codeA(X)", "codeB(X)", "code0(X)", "snap", "revN", "commit(false)", "reopen-disk(true)"}},
	{"F7-shared-nodes", []int{0, 2}, []string{"st(X,0,2)", "st(X,1,2)", "st(X,0,1)", "fin(false)", "fork", "commit(false)"}},
	{"F5-copy", []int{0}, []string{"add1(X)", "logrefund", "logB", "snap", "revN", "fork", "copy"}},
	{"F6-values", []int{0, 2}, []string{"st(X,1,127)", "st(X,1,128)", "st(X,1,256)", "st(X,1,full)", "st(X,1,2)", "st(X,0,0)", "fin(true)", "commit(false)", "copy", "reopen-disk(true)"}},
	{"F4-two", []int{0}, []string{"add1(A1)", "add1(F)", "st(A1,1,2)", "st(F,0,2)", "suicide(A1)", "suicide(F)", "snap", "revN", "fin(true)", "reopen-disk(true)"}},
	{"F2a-root", []int{0, 1, 2}, []string{"add1(X)", "setbal0(X)", "nonce1(X)", "nonce0(X)", "codeA(X)", "st(X,0,1)", "st(X,0,0)", "st(X,1,2)", "fin(true)", "fin(false)", "commit(false)"}},
	{"F2b-persist", []int{0, 2}, []string{"add1(X)", "setbal0(X)", "codeB(X)", "st(X,0,2)", "st(X,0,0)", "fin(true)", "commit(true)", "commit(false)", "copy", "reopen-disk(true)", "reopen-cached(false)", "readall"}},
	{"F1-revert", []int{0, 1, 2}, []string{"add1(X)", "nonce1(X)", "codeB(X)", "st(X,0,2)", "st(X,0,0)", "suicide(X)", "create(X)", "logrefund", "snap", "revN", "revO"}},
	{"F3-destruct", []int{0, 1, 2}, []string{"suicide(X)", "create(X)", "add0(X)", "add1(X)", "sub1(X)", "st(X,0,1)", "snap", "revN", "fin(true)", "fin(false)", "commit(true)"}},
}

var allOps map[string]op

func initOps() {
	allOps = globalOps()
	for x := 0; x < 3; x++ {
		for k, v := range opsFor(x) {
			allOps[k] = v
		}
	}
}

func (f *family) alphabet(target int) []op {
	var out []op
	for _, n := range f.names {
		n = strings.Replace(n, "X", addrNames[target], 1)
		o, ok := allOps[n]
		if !ok {
			ev.Broken("family %s: unknown op %q", f.name, n)
		}
		out = append(out, o)
	}
	return out
}

// wellFormed: reverts only to live snapshots; revO only when it differs from revN.
func wellFormed(seq []op) bool {
	live := 0
	for _, o := range seq {
		switch o.kind {
		case kSnap:
			live++
		case kRevNewest:
			if live < 1 {
				return false
			}
			live--
		case kRevOldest:
			if live < 2 {
				return false
			}
			live = 0
		case kFin, kCommit, kCopy, kReopen:
			live = 0
		}
	}
	return true
}

// erase returns the twin sequence with the first erasable construct removed, or nil.
func erase(seq []op) (twin []op, what string) {
	// live snapshot positions
	var live []int
	for j, o := range seq {
		switch o.kind {
		case kSnap:
			live = append(live, j)
		case kRevNewest, kRevOldest:
			i := live[len(live)-1]
			if o.kind == kRevOldest {
				i = live[0]
			}
			twin = append(append([]op{}, seq[:i]...), seq[j+1:]...)
			return twin, "erase-revert"
		case kFin, kCommit:
			live = live[:0]
		case kCopy:
			return append(append([]op{}, seq[:j]...), seq[j+1:]...), "erase-copy"
		case kReadAll:
			return append(append([]op{}, seq[:j]...), seq[j+1:]...), "erase-readall"
		case kFork:
			return append(append([]op{}, seq[:j]...), seq[j+1:]...), "erase-fork"
		case kReopen:
			twin = append([]op{}, seq...)
			de := strings.Contains(o.name, "(true)")
			twin[j] = allOps[fmt.Sprintf("commit(%v)", de)]
			return twin, "erase-reopen"
		}
	}
	return nil, ""
}

type outcome struct {
	end      *dump // after the last operation
	endRoot  common.Hash
	hasRoot  bool
	rootOp   string
	raw      string // RawDump account summary when the last op committed
	closing  *dump  // after the closing IntermediateRoot(true)
	closRoot common.Hash
}

type fail struct {
	oracle, field, msg string
}

func execute(seq []op) (out *outcome, f *fail) {
	step := "open"
	defer func() {
		if r := recover(); r != nil {
			f = &fail{"panic", step, fmt.Sprintf("%s: %v", step, r)}
		}
	}()
	w := newWorld()
	for i, o := range seq {
		step = o.name
		w.hasRoot = false
		if err := o.fn(w); err != nil {
			return nil, &fail{"op-error", kindName(o.kind), fmt.Sprintf("step %d %s: %v", i, o.name, err)}
		}
	}
	step = "dump"
	// (StateDB.Error() is not consulted: GetCodeSize of a code-less account memoises the disk
	// database's "not found" there, which is outside this property.)
	out = &outcome{end: takeDump(w.st), endRoot: w.lastRoot, hasRoot: w.hasRoot, rootOp: w.rootOp}
	if w.hasRoot && w.rootOp == "Commit" {
		step = "rawdump"
		out.raw = rawSummary(w.st)
	}
	step = "closing"
	out.closRoot = w.st.IntermediateRoot(true)
	out.closing = takeDump(w.st)
	// every root committed into this state.Database still names its own content, whatever was done to
	// the committing StateDB object afterwards (the database serves recent roots from cached tries)
	step = "old-roots"
	for i, r := range w.commits {
		old, err := state.New(r, w.sdb)
		if err != nil {
			return nil, &fail{"old-root", "open", fmt.Sprintf("root %x committed by commit #%d of the sequence cannot be opened any more: %v", r[:4], i, err)}
		}
		d := takeDump(old)
		if got := refStateRoot(d); got != r {
			return nil, &fail{"old-root", "content", fmt.Sprintf("state opened at root %x (commit #%d of the sequence) reads back content whose specification root is %x: %+v", r[:4], i, got[:4], d.Accts)}
		}
	}
	step = "asides"
	for i, a := range w.asides {
		if field, msg := a.was.diff(takeDump(a.st), true); field != "" {
			return nil, &fail{"aside-changed", field, fmt.Sprintf("%s (#%d) no longer reads back what it read when it was set aside: %s", a.what, i, msg)}
		}
		// ... and its tries still hold that content (a copy shares trie nodes with its original)
		r := a.st.IntermediateRoot(false)
		d := takeDump(a.st)
		if want := refStateRoot(d); r != want {
			return nil, &fail{"aside-changed", "root", fmt.Sprintf("%s (#%d): IntermediateRoot(false) is %x, the specification root of the content it reads back is %x", a.what, i, r[:4], want[:4])}
		}
	}
	return out, nil
}

func kindName(k opKind) string {
	return []string{"mutator", "snapshot", "revert", "revert", "finalise", "commit", "copy", "reopen", "readall", "fork"}[k]
}

// rawSummary renders RawDump in the vocabulary of the observable dump.
func rawSummary(s *state.StateDB) string {
	rd := s.RawDump()
	var parts []string
	for i, a := range addrs {
		acc, ok := rd.Accounts[common.Bytes2Hex(a[:])]
		if !ok {
			continue
		}
		var st []string
		for k, v := range acc.Storage {
			st = append(st, k+"="+v)
		}
		sort.Strings(st)
		parts = append(parts, fmt.Sprintf("%s:%s,%d,%s,%s", addrNames[i], acc.Balance, acc.Nonce, acc.Code, strings.Join(st, "+")))
	}
	if len(rd.Accounts) != len(parts) {
		parts = append(parts, fmt.Sprintf("and %d accounts outside the universe", len(rd.Accounts)-len(parts)))
	}
	return strings.Join(parts, " ")
}

func rawExpected(d *dump) string {
	var parts []string
	for i, a := range d.Accts {
		if !a.Exist {
			continue
		}
		var st []string
		for j, v := range a.Slots {
			if v != (common.Hash{}) {
				enc := refmpt.RlpBig(v[:])
				st = append(st, common.Bytes2Hex(slots[j][:])+"="+common.Bytes2Hex(enc))
			}
		}
		sort.Strings(st)
		parts = append(parts, fmt.Sprintf("%s:%s,%d,%s,%s", addrNames[i], a.Balance, a.Nonce, common.Bytes2Hex([]byte(a.Code)), strings.Join(st, "+")))
	}
	return strings.Join(parts, " ")
}

// evaluate runs every oracle on one sequence.
func evaluate(seq []op) *fail {
	out, f := execute(seq)
	if f != nil {
		return f
	}
	if msg := out.end.selfCheck(); msg != "" {
		return &fail{"getters-inconsistent", "end", msg}
	}
	if msg := out.closing.selfCheck(); msg != "" {
		return &fail{"getters-inconsistent", "closing", msg}
	}
	last := "none"
	if len(seq) > 0 {
		last = kindName(seq[len(seq)-1].kind)
	}
	if out.hasRoot {
		if want := refStateRoot(out.end); out.endRoot != want {
			return &fail{"root", "after-" + last, fmt.Sprintf("%s returned %x, specification root of the content read back is %x; content %+v", out.rootOp, out.endRoot, want, out.end.Accts)}
		}
		for i, a := range out.end.Accts {
			if a.Suicided {
				return &fail{"suicided-after-finalise", "after-" + last, addrNames[i] + " still reports HasSuicided"}
			}
		}
		if out.raw != "" {
			if want := rawExpected(out.end); out.raw != want {
				return &fail{"rawdump", "after-" + last, fmt.Sprintf("RawDump %q, getters %q", out.raw, want)}
			}
		}
	}
	if want := refStateRoot(out.closing); out.closRoot != want {
		return &fail{"root", "closing-after-" + last, fmt.Sprintf("IntermediateRoot(true) returned %x, specification root of the content read back is %x; content %+v", out.closRoot, want, out.closing.Accts)}
	}
	if f := rebuildCheck(seq); f != nil {
		return f
	}
	twin, what := erase(seq)
	if twin == nil {
		return nil
	}
	tout, tf := execute(twin)
	if tf != nil {
		return &fail{what + "/twin-" + tf.oracle, tf.field, "twin " + seqString(twin) + ": " + tf.msg}
	}
	withLogs := what != "erase-reopen"
	if field, msg := out.end.diff(tout.end, withLogs); field != "" {
		if field == "exist" && what == "erase-revert" && emptyDeletedInSequence(seq, twin) {
			field = "exist:empty-account-deleted"
		}
		return &fail{what + "/dump", field, fmt.Sprintf("%s (sequence vs twin %s)", msg, seqString(twin))}
	}
	if field, msg := out.closing.diff(tout.closing, withLogs); field != "" {
		// name the one pattern that has a known cause precisely: an account that was empty (and equal in
		// both runs) before the closing Finalise(true) is deleted by it in one run only - its hidden
		// dirty mark differs
		if field == "exist" {
			for i := range out.end.Accts {
				if out.closing.Accts[i].Exist != tout.closing.Accts[i].Exist && out.end.Accts[i].Exist && out.end.Accts[i].Empty {
					field = "exist:empty-account-deleted"
				}
			}
		}
		return &fail{what + "/after-finalise", field, fmt.Sprintf("%s after closing IntermediateRoot(true) (sequence vs twin %s)", msg, seqString(twin))}
	}
	if out.closRoot != tout.closRoot {
		return &fail{what + "/after-finalise", "root", fmt.Sprintf("closing root %x vs twin %x (%s)", out.closRoot, tout.closRoot, seqString(twin))}
	}
	return nil
}

// rebuildCheck is the history-independence oracle in its differential form. When the sequence is
// S . c . o with c a commit (all write-back caches flushed, journal empty), a second state is built
// from nothing but the content read back after c (setters on an empty database, then Commit(false)). If
// it reads back identically, applying o to both must again read back identically, also after a closing
// IntermediateRoot(true): what an operation does may depend on the content, never on how it came about.
func rebuildCheck(seq []op) (f *fail) {
	n := len(seq)
	if n < 2 || (seq[n-2].kind != kCommit && seq[n-2].kind != kReopen) || seq[n-1].kind == kRevNewest || seq[n-1].kind == kRevOldest {
		return nil
	}
	defer func() {
		if r := recover(); r != nil {
			f = &fail{"rebuild/panic", "last-op", fmt.Sprintf("%v", r)}
		}
	}()
	w := newWorld()
	for _, o := range seq[:n-1] {
		if o.fn(w) != nil {
			return nil
		}
	}
	d1 := takeDump(w.st)
	c := &world{disk: aquadb.NewMemDatabase()}
	c.sdb = state.NewDatabase(c.disk)
	var err error
	if c.st, err = state.New(common.Hash{}, c.sdb); err != nil {
		return nil
	}
	for i, a := range d1.Accts {
		if !a.Exist {
			continue
		}
		c.st.CreateAccount(addrs[i])
		bal, _ := new(big.Int).SetString(a.Balance, 10)
		c.st.SetBalance(addrs[i], bal)
		c.st.SetNonce(addrs[i], a.Nonce)
		if a.Code != "" {
			c.st.SetCode(addrs[i], []byte(a.Code))
		}
		for j, v := range a.Slots {
			if v != (common.Hash{}) {
				c.st.SetState(addrs[i], slots[j], v)
			}
		}
	}
	if _, err := c.st.Commit(false); err != nil {
		return nil
	}
	c.st.Prepare(thash, bhash, 0)
	if field, _ := d1.diff(takeDump(c.st), false); field != "" && field != "refund" {
		return nil // the content cannot be rebuilt by setters (not comparable)
	}
	last := seq[n-1]
	e1, e2 := last.fn(w), last.fn(c)
	if (e1 == nil) != (e2 == nil) {
		return &fail{"rebuild", "last-op-error", fmt.Sprintf("%s after %s: error %v on the history, %v on the state rebuilt from its content", last.name, seqString(seq[:n-1]), e1, e2)}
	}
	if e1 != nil {
		return nil
	}
	if field, msg := takeDump(w.st).diff(takeDump(c.st), false); field != "" && field != "refund" {
		return &fail{"rebuild", field, fmt.Sprintf("%s applied after %s and applied to a state rebuilt from the content read back there give different content: %s (history vs rebuilt)", last.name, seqString(seq[:n-1]), msg)}
	}
	r1, r2 := w.st.IntermediateRoot(true), c.st.IntermediateRoot(true)
	if field, msg := takeDump(w.st).diff(takeDump(c.st), false); field != "" && field != "refund" {
		return &fail{"rebuild/after-finalise", field, fmt.Sprintf("%s after %s vs the same on the rebuilt state, after a closing IntermediateRoot(true): %s", last.name, seqString(seq[:n-1]), msg)}
	}
	if r1 != r2 {
		return &fail{"rebuild/after-finalise", "root", fmt.Sprintf("%s after %s: closing root %x, on the state rebuilt from the same content %x", last.name, seqString(seq[:n-1]), r1[:4], r2[:4])}
	}
	return nil
}

// emptyDeletedInSequence diagnoses one known pattern for the signature (it never excuses anything):
// sequence and twin read back identically right before an empty-account-deleting finalise/commit inside
// the sequence, some account is empty there, and right after it exists in one of them only.
func emptyDeletedInSequence(seq, twin []op) bool {
	shift := len(seq) - len(twin)
	for q := shift; q < len(seq); q++ {
		o := seq[q]
		if !(o.kind == kFin || o.kind == kCommit || o.kind == kReopen) || !strings.Contains(o.name, "(true)") {
			continue
		}
		if q-shift < 0 || twin[q-shift].name != o.name && twin[q-shift].kind != kCommit {
			continue
		}
		b1, f1 := execute(seq[:q])
		b2, f2 := execute(twin[:q-shift])
		a1, g1 := execute(seq[:q+1])
		a2, g2 := execute(twin[:q+1-shift])
		if f1 != nil || f2 != nil || g1 != nil || g2 != nil {
			return false
		}
		if fld, _ := b1.end.diff(b2.end, true); fld != "" {
			return false
		}
		for i := range b1.end.Accts {
			if b1.end.Accts[i].Exist && b1.end.Accts[i].Empty && a1.end.Accts[i].Exist != a2.end.Accts[i].Exist {
				return true
			}
		}
		return false
	}
	return false
}

// shrink removes operations one at a time as long as the sequence stays well formed and still fails
// some oracle: the (locally minimal) result identifies a defect rather than an enumeration index, and
// the violation is reported for it.
func shrink(seq []op, f *fail) []op {
	cur := append([]op{}, seq...)
	for changed := true; changed; {
		changed = false
		for i := 0; i < len(cur); i++ {
			cand := append(append([]op{}, cur[:i]...), cur[i+1:]...)
			if !wellFormed(cand) {
				continue
			}
			if g := evaluate(cand); g != nil {
				cur, changed = cand, true
				break
			}
		}
	}
	return cur
}

func seqString(seq []op) string {
	var s []string
	for _, o := range seq {
		s = append(s, o.name)
	}
	return strings.Join(s, " ")
}

func parseSeqString(s string) []op {
	var out []op
	for _, n := range strings.Fields(s) {
		o, ok := allOps[n]
		if !ok {
			ev.Broken("replay: unknown op %q", n)
		}
		out = append(out, o)
	}
	return out
}

// ---- the check ------------------------------------------------------------------------------------------------

func TestCheck(t *testing.T) {
	log.Root().SetHandler(log.DiscardHandler())
	gcp := 800
	if v := os.Getenv("VERIF_C09_GOGC"); v != "" { // development aid
		fmt.Sscan(v, &gcp)
	}
	debug.SetGCPercent(gcp)
	runtime.MemProfileRate = 0
	run := ev.Start("exploration")
	run.MaxReplays = 120 // one defect here shows as several (family, target, shape) signatures
	run.Rule = "every well-formed operation sequence up to the depth bound over the alphabet of each (family, target account), from a base state " +
		"holding a contract account, an existing empty account and an absent one; distinct classes = (family, target, multiset of operation kinds, erased construct)"
	run.Assume("three accounts (contract with storage, existing-but-empty, absent), two storage slots, values 0..2, balances 0..~8, codes {none, A, B}")
	run.Assume("five focused alphabets of 10-11 operations instead of one alphabet of ~60 (no unsound state merging; interplay across families is not explored)")
	run.Assume("the RIPEMD precompile address 0x03 is not in the universe (its touch survives a revert by protocol rule)")
	run.Assume("SubBalance is only issued when the balance read back covers it (as core.CanTransfer does); after Copy/reopen the caller Prepares the transaction context again")
	run.Assume("reads through the getters are taken at the end of a sequence (or as the explicit readall operation), never silently in the middle")
	initOps()
	base = buildBase()

	if d := ev.Replay(); d != nil {
		seq := parseSeqString(d.Detail["seq"].(string))
		run.Eval(1)
		if f := evaluate(seq); f != nil {
			d.Detail["message"] = f.msg
			run.Violate(ev.Violation{Scenario: d.Scenario, Oracle: d.Oracle, CaseID: d.CaseID, Detail: d.Detail})
		}
		run.Finish()
	}

	depth := 5
	if run.Thorough() {
		depth = 6
	}
	if v := os.Getenv("VERIF_C09_DEPTH"); v != "" { // development aid
		fmt.Sscan(v, &depth)
	}
	if pf := os.Getenv("VERIF_C09_PROF"); pf != "" { // development aid
		if fh, err := os.Create(pf); err == nil {
			pprof.StartCPUProfile(fh)
		}
	}
	deadline := run.Deadline(85*time.Second, 13*time.Minute)
	only := os.Getenv("VERIF_C09_FAMILIES")
	var total, skipped, twins int64
	for _, fam := range familyDefs {
		if only != "" && !strings.Contains(only, fam.name[:2]) {
			run.Cap("family " + fam.name + " not selected (VERIF_C09_FAMILIES)")
			continue
		}
		for _, target := range fam.targets {
			alpha := fam.alphabet(target)
			t0 := time.Now()
			var famEvals int64
			fdepth := depth
			if run.Quick() && (strings.HasPrefix(fam.name, "F2") || fam.name == "F6-values") && os.Getenv("VERIF_C09_DEPTH") == "" {
				fdepth = depth - 1 // quick: the two families without snapshots (no ill-formed sequences to skip) one level shallower
			}
			if (fam.name == "F5-copy" || fam.name == "F7-shared-nodes" || fam.name == "F8-code") && os.Getenv("VERIF_C09_DEPTH") == "" {
				fdepth = depth + 1 // small alphabet; the aliasing patterns between a copy and its original need 6 steps
			}
			run.Set("depth_"+fam.name, fdepth)
			for l := 0; l <= fdepth; l++ {
				n := 1
				for i := 0; i < l; i++ {
					n *= len(alpha)
				}
				const block = 512
				nb := (n + block - 1) / block
				var done, skip, tw atomic.Int64
				classes := sync.Map{}
				ev.ParallelFor(nb, func(b int) {
					lo, hi := b*block, (b+1)*block
					if hi > n {
						hi = n
					}
					if time.Now().After(deadline) {
						skip.Add(int64(hi - lo))
						return
					}
					seq := make([]op, l)
					cnt := 0
					for x := lo; x < hi; x++ {
						y := x
						for i := l - 1; i >= 0; i-- {
							seq[i] = alpha[y%len(alpha)]
							y /= len(alpha)
						}
						if !wellFormed(seq) {
							continue
						}
						cnt++
						_, what := erase(seq)
						if what != "" {
							tw.Add(1)
						}
						if f := evaluate(seq); f != nil {
							collect(l, x, seq, f)
						}
						if l >= 2 {
							classes.Store(classKey(seq, what), true)
						}
					}
					done.Add(int64(cnt))
				})
				flush(run, &fam, target)
				classes.Range(func(k, _ interface{}) bool {
					run.Class(fam.name + "/" + addrNames[target] + "/" + k.(string))
					return true
				})
				run.Eval(int(done.Load()))
				total += done.Load()
				famEvals += done.Load()
				skipped += skip.Load()
				twins += tw.Load()
				if skip.Load() > 0 {
					run.Cap(fmt.Sprintf("deadline: family %s target %s length %d: %d raw sequences skipped", fam.name, addrNames[target], l, skip.Load()))
				}
			}
			run.Set(fmt.Sprintf("sequences_%s_%s", fam.name, addrNames[target]), famEvals)
			run.Set(fmt.Sprintf("wall_s_%s_%s", fam.name, addrNames[target]), float64(int(time.Since(t0).Seconds()*10))/10)
		}
		run.Set("alphabet_"+fam.name, strings.Join(fam.names, " "))
	}
	pprof.StopCPUProfile()
	run.Set("depth", depth)
	run.Add("sequences", total)
	run.Add("sequences_with_twin", twins)
	run.Sample(map[string]interface{}{"family": "F1-revert", "target": "A2", "seq": "snap nonce1(A2) revN", "oracles": "root, erase-revert dump + after-finalise"})
	run.Sample(map[string]interface{}{"family": "F2b-persist", "target": "F", "seq": "add1(F) st(F,0,2) reopen-disk(true) copy st(F,0,0)", "oracles": "root, rawdump, erase-reopen"})
	run.Finish()
}

// classKey: the multiset of operation kinds plus the erased construct.
func classKey(seq []op, what string) string {
	var c [10]int
	for _, o := range seq {
		c[o.kind]++
	}
	return fmt.Sprintf("%v/%s", c, what)
}

// shape abstracts a (shrunk) sequence to its operation kinds: mutators become "mut", everything else
// keeps its name. One defect then has a handful of signatures whatever mutator exposes it.
func shape(seq []op) string {
	var s []string
	for _, o := range seq {
		if o.kind == kMut {
			s = append(s, "mut")
		} else {
			s = append(s, o.name)
		}
	}
	return strings.Join(s, " ")
}

// Failing sequences are first collected - one per (oracle, field, shape of the sequence), the one with
// the smallest enumeration index - and then processed in a fixed order after each length, so that the
// reported signatures do not depend on goroutine scheduling.
type cand struct {
	l, idx int
	seq    []op
	f      *fail
}

var (
	pendMu    sync.Mutex
	pending   = map[string]*cand{}
	preSeen   = map[string]bool{}
	processed = map[string]int{}
)

func collect(l, idx int, seq []op, f *fail) {
	pre := fmt.Sprintf("%s/%s/%s", f.oracle, f.field, shape(seq))
	pendMu.Lock()
	defer pendMu.Unlock()
	if c, ok := pending[pre]; ok && (c.l < l || c.l == l && c.idx <= idx) {
		return
	}
	pending[pre] = &cand{l, idx, append([]op{}, seq...), f}
}

func flush(run *ev.Run, fam *family, target int) {
	pendMu.Lock()
	var keys []string
	for k := range pending {
		keys = append(keys, k)
	}
	sort.Strings(keys)
	cs := make([]*cand, 0, len(keys))
	for _, k := range keys {
		full := fmt.Sprintf("%s/%d/%s", fam.name, target, k)
		if !preSeen[full] {
			preSeen[full] = true
			cs = append(cs, pending[k])
		}
	}
	pending = map[string]*cand{}
	pendMu.Unlock()
	sort.Slice(cs, func(a, b int) bool { return cs[a].idx < cs[b].idx })
	ft := fmt.Sprintf("%s/%d", fam.name, target)
	for _, c := range cs {
		if processed[ft]++; processed[ft] > 600 {
			return // hundreds of differently shaped failing sequences: the run fails anyway
		}
		report(run, fam, target, c.seq, c.f)
	}
}

func report(run *ev.Run, fam *family, target int, seq []op, f *fail) {
	for i := 0; i < 3; i++ {
		g := evaluate(seq)
		if g == nil || g.oracle != f.oracle || g.field != f.field {
			ev.Broken("verdict of %q flipped on re-evaluation: first %v then %v", seqString(seq), f, g)
		}
	}
	min := shrink(seq, f)
	if g := evaluate(min); g != nil {
		f = g
	}
	run.Violate(ev.Violation{Scenario: fam.name, Oracle: f.oracle + ":" + f.field, CaseID: "target=" + addrNames[target] + "/shape=" + shape(min),
		Detail: map[string]interface{}{"family": fam.name, "target": addrNames[target], "seq": seqString(min), "found_as": seqString(seq), "message": f.msg}})
}
