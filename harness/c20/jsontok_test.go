// A small JSON scanner that reports where every key, string value and number sits in the file, and
// the alteration generator built on it.
package c20

import (
	"fmt"
	"strings"
)

type token struct {
	kind       byte   // 'k' object key, 's' string value, 'n' number, 'x' structural bytes (everything else)
	start, end int    // content range (without the quotes)
	path       string // dotted lower-case path, e.g. crypto.kdfparams.salt
}

type scanner struct {
	b    []byte
	i    int
	toks []token
}

func (s *scanner) ws() {
	for s.i < len(s.b) && (s.b[s.i] == ' ' || s.b[s.i] == '\n' || s.b[s.i] == '\t' || s.b[s.i] == '\r') {
		s.i++
	}
}

func (s *scanner) str() (int, int, error) {
	if s.i >= len(s.b) || s.b[s.i] != '"' {
		return 0, 0, fmt.Errorf("string expected at %d", s.i)
	}
	s.i++
	st := s.i
	for s.i < len(s.b) && s.b[s.i] != '"' {
		if s.b[s.i] == '\\' {
			return 0, 0, fmt.Errorf("escape at %d: not supported by the harness scanner", s.i)
		}
		s.i++
	}
	if s.i >= len(s.b) {
		return 0, 0, fmt.Errorf("unterminated string")
	}
	en := s.i
	s.i++
	return st, en, nil
}

func (s *scanner) value(path string) error {
	s.ws()
	if s.i >= len(s.b) {
		return fmt.Errorf("value expected")
	}
	switch c := s.b[s.i]; {
	case c == '{':
		s.i++
		s.ws()
		if s.i < len(s.b) && s.b[s.i] == '}' {
			s.i++
			return nil
		}
		for {
			s.ws()
			st, en, err := s.str()
			if err != nil {
				return err
			}
			name := strings.ToLower(string(s.b[st:en]))
			p := name
			if path != "" {
				p = path + "." + name
			}
			s.toks = append(s.toks, token{'k', st, en, p + "#name"})
			s.ws()
			if s.i >= len(s.b) || s.b[s.i] != ':' {
				return fmt.Errorf("colon expected at %d", s.i)
			}
			s.i++
			if err := s.value(p); err != nil {
				return err
			}
			s.ws()
			if s.i < len(s.b) && s.b[s.i] == ',' {
				s.i++
				continue
			}
			if s.i < len(s.b) && s.b[s.i] == '}' {
				s.i++
				return nil
			}
			return fmt.Errorf("',' or '}' expected at %d", s.i)
		}
	case c == '"':
		st, en, err := s.str()
		if err != nil {
			return err
		}
		s.toks = append(s.toks, token{'s', st, en, path})
		return nil
	case c == '-' || c >= '0' && c <= '9':
		st := s.i
		for s.i < len(s.b) && strings.IndexByte("+-0123456789.eE", s.b[s.i]) >= 0 {
			s.i++
		}
		s.toks = append(s.toks, token{'n', st, s.i, path})
		return nil
	}
	return fmt.Errorf("unsupported value at %d", s.i)
}

// tokenize returns the key/string/number tokens plus one 'x' token per maximal run of other bytes.
func tokenize(b []byte) ([]token, error) {
	s := &scanner{b: b}
	if err := s.value(""); err != nil {
		return nil, err
	}
	s.ws()
	if s.i != len(b) {
		return nil, fmt.Errorf("trailing bytes at %d", s.i)
	}
	covered := make([]bool, len(b))
	for _, t := range s.toks {
		for i := t.start; i < t.end; i++ {
			covered[i] = true
		}
	}
	out := append([]token(nil), s.toks...)
	for i := 0; i < len(b); {
		if covered[i] {
			i++
			continue
		}
		j := i
		for j < len(b) && !covered[j] {
			j++
		}
		out = append(out, token{'x', i, j, "structure"})
		i = j
	}
	return out, nil
}

// topLevelObjects splits {"a": <v1>, "b": <v2>} into name -> raw bytes of the value.
func topLevelObjects(b []byte) map[string][]byte {
	out := map[string][]byte{}
	s := &scanner{b: b}
	s.ws()
	if s.i >= len(b) || b[s.i] != '{' {
		return out
	}
	s.i++
	for {
		s.ws()
		st, en, err := s.str()
		if err != nil {
			return out
		}
		name := string(b[st:en])
		s.ws()
		s.i++ // ':'
		s.ws()
		vs := s.i
		if err := s.value("x"); err != nil {
			return out
		}
		out[name] = b[vs:s.i]
		s.ws()
		if s.i < len(b) && b[s.i] == ',' {
			s.i++
			continue
		}
		return out
	}
}

type mutation struct {
	out  []byte
	kind string // sub, del, ins, bytes
	desc string
}

func isHexField(path string) bool {
	switch {
	case strings.HasSuffix(path, "ciphertext"), strings.HasSuffix(path, ".mac"), strings.HasSuffix(path, ".salt"), strings.HasSuffix(path, ".iv"), path == "address":
		return true
	}
	return false
}

func splice(b []byte, start, end int, repl string) []byte {
	out := make([]byte, 0, len(b)-(end-start)+len(repl))
	out = append(out, b[:start]...)
	out = append(out, repl...)
	out = append(out, b[end:]...)
	return out
}

// mutations lists every alteration of one token of the file.
func mutations(b []byte, t token) []mutation {
	var out []mutation
	add := func(start, end int, repl, kind string) {
		out = append(out, mutation{splice(b, start, end, repl), kind,
			fmt.Sprintf("%s[%d:%d] %q -> %q", t.path, start-t.start, end-t.start, string(b[start:end]), repl)})
	}
	var subAlpha func(c byte) string
	insAlpha := ""
	switch {
	case t.kind == 's' && isHexField(t.path):
		subAlpha = func(c byte) string {
			a := "0123456789abcdefg"
			if c >= 'a' && c <= 'f' {
				a += string(c - 32)
			} else if c >= 'A' && c <= 'F' {
				a += string(c + 32)
			}
			return a
		}
	case t.kind == 's':
		subAlpha = func(c byte) string { return string([]byte{c + 1, c - 1, 'x', '0', '1', '3'}) }
		insAlpha = "x1"
	case t.kind == 'n':
		subAlpha = func(c byte) string { return "0123456789e-." }
		insAlpha = "0123456789e-."
	case t.kind == 'k':
		subAlpha = func(c byte) string {
			a := string([]byte{c + 1, 'x'})
			if c >= 'a' && c <= 'z' {
				a += string(c - 32)
			} else if c >= 'A' && c <= 'Z' {
				a += string(c + 32)
			}
			return a
		}
	default:
		subAlpha = func(c byte) string { return " x\"},0:{" }
	}
	for i := t.start; i < t.end; i++ {
		seen := map[byte]bool{b[i]: true}
		for _, c := range []byte(subAlpha(b[i])) {
			if !seen[c] {
				seen[c] = true
				add(i, i+1, string(c), "sub")
			}
		}
		add(i, i+1, "", "del")
	}
	for i := t.start; i <= t.end && insAlpha != ""; i++ {
		for _, c := range []byte(insAlpha) {
			add(i, i, string(c), "ins")
		}
	}
	if t.kind == 's' && isHexField(t.path) {
		n := t.end - t.start
		if n >= 2 {
			add(t.start, t.start+2, "", "bytes")                       // first byte dropped
			add(t.end-2, t.end, "", "bytes")                           // last byte dropped
			add(t.start, t.end, string(b[t.start:t.start+2]), "bytes") // only the first byte left
		}
		add(t.end, t.end, "00", "bytes")     // one byte appended
		add(t.start, t.start, "00", "bytes") // one byte prepended
		add(t.start, t.end, "", "bytes")     // emptied
	}
	return out
}
