// Reference implementation of the Web3 secret storage formats v3 and v1 (writer and reader), written
// against the format description only: golang.org/x/crypto (scrypt, pbkdf2, sha3) and crypto/aes.
// It shares no code with aqua/accounts/keystore.
package c20

import (
	"bytes"
	"crypto/aes"
	"crypto/cipher"
	"crypto/sha256"
	"encoding/hex"
	"encoding/json"
	"errors"
	"fmt"

	"golang.org/x/crypto/pbkdf2"
	"golang.org/x/crypto/scrypt"
	"golang.org/x/crypto/sha3"
)

type kdfSpec struct {
	kdf        string
	n, r, p, c int
	dklen      int
	salt       []byte
}

func keccak(parts ...[]byte) []byte {
	h := sha3.NewLegacyKeccak256()
	for _, p := range parts {
		h.Write(p)
	}
	return h.Sum(nil)
}

func (k kdfSpec) derive(pass string) []byte {
	switch k.kdf {
	case "scrypt":
		dk, err := scrypt.Key([]byte(pass), k.salt, k.n, k.r, k.p, k.dklen)
		if err != nil {
			panic(err)
		}
		return dk
	case "pbkdf2":
		return pbkdf2.Key([]byte(pass), k.salt, k.c, k.dklen, sha256.New)
	}
	panic("kdf " + k.kdf)
}

func (k kdfSpec) json() string {
	if k.kdf == "scrypt" {
		return fmt.Sprintf(`{"dklen":%d,"n":%d,"p":%d,"r":%d,"salt":"%x"}`, k.dklen, k.n, k.p, k.r, k.salt)
	}
	return fmt.Sprintf(`{"c":%d,"dklen":%d,"prf":"hmac-sha256","salt":"%x"}`, k.c, k.dklen, k.salt)
}

// composeV3: derived key dk; ciphertext = AES-128-CTR(dk[0:16], iv, plaintext); mac = keccak256(dk[16:32] || ciphertext).
func composeV3(plain []byte, pass string, k kdfSpec, iv []byte, addrHex, id string) []byte {
	dk := k.derive(pass)
	blk, err := aes.NewCipher(dk[:16])
	if err != nil {
		panic(err)
	}
	ct := make([]byte, len(plain))
	cipher.NewCTR(blk, iv).XORKeyStream(ct, plain)
	mac := keccak(dk[16:32], ct)
	return []byte(fmt.Sprintf(`{"address":"%s","crypto":{"cipher":"aes-128-ctr","ciphertext":"%x","cipherparams":{"iv":"%x"},"kdf":"%s","kdfparams":%s,"mac":"%x"},"id":"%s","version":3}`,
		addrHex, ct, iv, k.kdf, k.json(), mac, id))
}

// composeV1: ciphertext = AES-128-CBC(keccak256(dk[0:16])[0:16], iv, pkcs7(plaintext)); mac as in v3; "version":"1".
func composeV1(plain []byte, pass string, k kdfSpec, iv []byte, addrHex, id string) []byte {
	dk := k.derive(pass)
	blk, err := aes.NewCipher(keccak(dk[:16])[:16])
	if err != nil {
		panic(err)
	}
	padn := 16 - len(plain)%16
	padded := append(append([]byte(nil), plain...), bytes.Repeat([]byte{byte(padn)}, padn)...)
	ct := make([]byte, len(padded))
	cipher.NewCBCEncrypter(blk, iv).CryptBlocks(ct, padded)
	mac := keccak(dk[16:32], ct)
	return []byte(fmt.Sprintf(`{"address":"%s","crypto":{"cipher":"aes-128-cbc","ciphertext":"%x","cipherparams":{"iv":"%x"},"kdf":"%s","kdfparams":%s,"mac":"%x","version":"1"},"id":"%s","version":"1"}`,
		addrHex, ct, iv, k.kdf, k.json(), mac, id))
}

// refDecrypt reads a v3 file the way the format description says (strict: exact types, lengths checked).
func refDecrypt(js []byte, pass string) (plain []byte, addr string, err error) {
	var f struct {
		Address string `json:"address"`
		Crypto  struct {
			Cipher       string `json:"cipher"`
			CipherText   string `json:"ciphertext"`
			CipherParams struct {
				IV string `json:"iv"`
			} `json:"cipherparams"`
			KDF       string `json:"kdf"`
			KDFParams struct {
				N, R, P, C, DKLen int
				Salt, PRF         string
			} `json:"kdfparams"`
			MAC string `json:"mac"`
		} `json:"crypto"`
		Version int `json:"version"`
	}
	if err := json.Unmarshal(js, &f); err != nil {
		return nil, "", err
	}
	if f.Version != 3 || f.Crypto.Cipher != "aes-128-ctr" {
		return nil, "", errors.New("ref: unsupported version/cipher")
	}
	ct, e1 := hex.DecodeString(f.Crypto.CipherText)
	iv, e2 := hex.DecodeString(f.Crypto.CipherParams.IV)
	mac, e3 := hex.DecodeString(f.Crypto.MAC)
	salt, e4 := hex.DecodeString(f.Crypto.KDFParams.Salt)
	if e1 != nil || e2 != nil || e3 != nil || e4 != nil || len(iv) != 16 || f.Crypto.KDFParams.DKLen != 32 {
		return nil, "", errors.New("ref: malformed field")
	}
	k := kdfSpec{kdf: f.Crypto.KDF, n: f.Crypto.KDFParams.N, r: f.Crypto.KDFParams.R, p: f.Crypto.KDFParams.P, c: f.Crypto.KDFParams.C, dklen: 32, salt: salt}
	if k.kdf == "scrypt" && (k.n < 2 || k.r < 1 || k.p < 1) || k.kdf == "pbkdf2" && (k.c < 1 || f.Crypto.KDFParams.PRF != "hmac-sha256") || k.kdf != "scrypt" && k.kdf != "pbkdf2" {
		return nil, "", errors.New("ref: bad kdf parameters")
	}
	dk := k.derive(pass)
	if !bytes.Equal(keccak(dk[16:32], ct), mac) {
		return nil, "", errors.New("ref: mac mismatch")
	}
	blk, _ := aes.NewCipher(dk[:16])
	plain = make([]byte, len(ct))
	cipher.NewCTR(blk, iv).XORKeyStream(plain, ct)
	return plain, f.Address, nil
}
