// C20 - keystore encryption round-trips and rejects wrong passphrases and tampering.
// Engine E4: bounded exhaustive enumeration over key files composed by the harness (fixed salt and
// IV, reference implementation of the Web3 secret storage v3 / v1 formats in refks.go), the
// repository's own test vectors, every single-character alteration of those files and every
// passphrase at edit distance one. DESIGN.md section 4/C20.
package c20

import (
	"bytes"
	"crypto/sha256"
	"encoding/hex"
	"encoding/json"
	"fmt"
	"math/big"
	"os"
	"path/filepath"
	"runtime/debug"
	"sort"
	"strings"
	"sync"
	"sync/atomic"
	"testing"
	"time"

	"github.com/btcsuite/btcd/btcec/v2"
	"github.com/pborman/uuid"
	"gitlab.com/aquachain/aquachain/aqua/accounts"
	"gitlab.com/aquachain/aquachain/aqua/accounts/keystore"
	"gitlab.com/aquachain/aquachain/common"
	"gitlab.com/aquachain/aquachain/common/log"
	"gitlab.com/aquachain/aquachain/core/types"
	"gitlab.com/aquachain/aquachain/crypto"
	"gitlab.com/aquachain/aquachain/zzverif/ev"
)

// ---- lattice ------------------------------------------------------------------------------------

var curveN, _ = new(big.Int).SetString("fffffffffffffffffffffffffffffffebaaedce6af48a03bbfd25e8cd0364141", 16)

type keyCase struct {
	name string
	d    []byte // 32 bytes, zero padded
	priv *btcec.PrivateKey
	addr common.Address
}

func pad32(b []byte) []byte {
	out := make([]byte, 32)
	copy(out[32-len(b):], b)
	return out
}

func mkKey(name string, d []byte) keyCase {
	d = pad32(d)
	priv, _ := btcec.PrivKeyFromBytes(d)
	return keyCase{name: name, d: d, priv: priv, addr: crypto.PubkeyToAddress(priv.PubKey())}
}

func keyLattice() []keyCase {
	h := func(s string) []byte { x := sha256.Sum256([]byte(s)); return x[:] }
	lead1 := h("c20 one leading zero byte")
	lead1[0] = 0
	lead1[1] |= 0x80
	lead2 := h("c20 two leading zero bytes")
	lead2[0], lead2[1] = 0, 0
	lead2[2] |= 0x01
	o1 := h("c20 ordinary key one")
	o1[0] = 0x7f
	o2 := h("c20 ordinary key two")
	o2[0] = 0xc3
	nm1 := new(big.Int).Sub(curveN, big.NewInt(1))
	return []keyCase{
		mkKey("one", []byte{1}),
		mkKey("two", []byte{2}),
		mkKey("n-1", nm1.Bytes()),
		mkKey("lead1", lead1),
		mkKey("lead2", lead2),
		mkKey("ord1", o1),
		mkKey("ord2", o2),
	}
}

type passCase struct{ name, pass string }

func passLattice(thorough bool) []passCase {
	long := strings.Repeat("Correct horse battery staple; 0123456789 ", 5)[:200]
	out := []passCase{
		{"empty", ""},
		{"a", "a"},
		{"long200", long},
		{"nonascii", "pässwörd-密码-\U0001F511"},
		{"ends-crlf", " s3cret\t\r\n"}, // white space and line endings are part of the credential
	}
	if thorough {
		out = append(out,
			passCase{"len64", strings.Repeat("k", 63) + "Z"}, // exactly one HMAC-SHA256 block
			passCase{"len65", strings.Repeat("k", 64) + "Z"}, // first length that HMAC pre-hashes
			passCase{"nul-inside", "a\x00b"},
		)
	}
	return out
}

// hmacKey is the key HMAC-SHA256 actually uses for a passphrase (RFC 2104): longer than a block =>
// hashed, then zero padded to the block size. scrypt and PBKDF2 see the passphrase only through it,
// so two passphrases with the same hmacKey are the same credential for every conforming
// implementation of the Web3 secret storage format.
func hmacKey(p string) [64]byte {
	var k [64]byte
	if len(p) > 64 {
		h := sha256.Sum256([]byte(p))
		copy(k[:], h[:])
	} else {
		copy(k[:], p)
	}
	return k
}

var editAlphabet = []rune{'a', 'B', '0', ' ', 'é', 0, '\n', '\r'}

// edits1 returns every passphrase at edit distance one over editAlphabet (rune positions).
func edits1(p string) []string {
	rs := []rune(p)
	seen := map[string]bool{p: true}
	var out []string
	add := func(r []rune) {
		s := string(r)
		if !seen[s] {
			seen[s] = true
			out = append(out, s)
		}
	}
	for i := range rs {
		for _, c := range editAlphabet { // substitution
			if c != rs[i] {
				n := append([]rune(nil), rs...)
				n[i] = c
				add(n)
			}
		}
		n := append(append([]rune(nil), rs[:i]...), rs[i+1:]...) // deletion
		add(n)
	}
	for i := 0; i <= len(rs); i++ { // insertion
		for _, c := range editAlphabet {
			n := append(append(append([]rune(nil), rs[:i]...), c), rs[i:]...)
			add(n)
		}
	}
	return out
}

// ---- bases --------------------------------------------------------------------------------------

type base struct {
	name   string
	format string // v3-scrypt, v3-pbkdf2, v1-scrypt, v1-pbkdf2, v3-scrypt-short, repo-...
	json   []byte
	pass   string
	d      []byte // expected private key, 32 bytes
	addr   common.Address
	full   bool // every alteration also goes through KeyStore.Unlock and (when DecryptKey returned a key) KeyStore.Import
}

func fixedBytes(tag, name string, n int) []byte {
	h := sha256.Sum256([]byte(tag + "|" + name))
	return h[:n]
}

const fixedUUID = "3198bc9c-6672-5ab3-d995-4942343ae5b6"

func composedBases(keys []keyCase, passes []passCase, formats []string) []base {
	var out []base
	for _, f := range formats {
		for _, k := range keys {
			for _, p := range passes {
				name := f + "/key=" + k.name + "/pass=" + p.name
				salt := fixedBytes("salt", name, 32)
				iv := fixedBytes("iv", name, 16)
				addrHex := hex.EncodeToString(k.addr[:])
				var js []byte
				switch f {
				case "v3-scrypt":
					js = composeV3(k.d, p.pass, kdfSpec{kdf: "scrypt", n: 2, r: 8, p: 1, dklen: 32, salt: salt}, iv, addrHex, fixedUUID)
				case "v3-scrypt-short": // plaintext without its leading zero bytes, accepted on read (repo vectors 31_byte_key / 30_byte_key)
					js = composeV3(bytes.TrimLeft(k.d, "\x00"), p.pass, kdfSpec{kdf: "scrypt", n: 2, r: 8, p: 1, dklen: 32, salt: salt}, iv, addrHex, fixedUUID)
				case "v3-scrypt-0x": // the address member written with a 0x prefix, as other wallets do
					js = composeV3(k.d, p.pass, kdfSpec{kdf: "scrypt", n: 2, r: 8, p: 1, dklen: 32, salt: salt}, iv, "0x"+addrHex, fixedUUID)
				case "v3-scrypt-0X": // ... upper case
					js = composeV3(k.d, p.pass, kdfSpec{kdf: "scrypt", n: 2, r: 8, p: 1, dklen: 32, salt: salt}, iv, "0X"+strings.ToUpper(addrHex), fixedUUID)
				case "v3-pbkdf2":
					js = composeV3(k.d, p.pass, kdfSpec{kdf: "pbkdf2", c: 2, dklen: 32, salt: salt}, iv, addrHex, fixedUUID)
				case "v1-scrypt":
					js = composeV1(k.d, p.pass, kdfSpec{kdf: "scrypt", n: 2, r: 8, p: 1, dklen: 32, salt: salt}, iv, addrHex, fixedUUID)
				case "v1-pbkdf2":
					js = composeV1(k.d, p.pass, kdfSpec{kdf: "pbkdf2", c: 2, dklen: 32, salt: salt}, iv, addrHex, fixedUUID)
				default:
					ev.Broken("unknown format %s", f)
				}
				out = append(out, base{name: name, format: f, json: js, pass: p.pass, d: k.d, addr: k.addr})
			}
		}
	}
	return out
}

// repoVectors loads the repository's own key files. cheap => usable as tamper base.
type repoVec struct {
	base
	cheap bool
}

func repoVectors() []repoVec {
	dir := filepath.Join(os.Getenv("VERIF_REPO_DIR"), "testdata", "testkeystore")
	if os.Getenv("VERIF_REPO_DIR") == "" {
		dir = "/repo/testdata/testkeystore"
	}
	var out []repoVec
	read := func(f string) []byte {
		b, err := os.ReadFile(filepath.Join(dir, f))
		if err != nil {
			ev.Broken("cannot read repository test vector %s: %v", f, err)
		}
		return b
	}
	mk := func(name string, js []byte, pass, privHex string, cheap bool) {
		d, err := hex.DecodeString(privHex)
		if err != nil {
			ev.Broken("bad priv in vector %s", name)
		}
		k := mkKey(name, d)
		out = append(out, repoVec{base{name: "repo/" + name, format: "repo-" + name, json: js, pass: pass, d: k.d, addr: k.addr}, cheap})
	}
	// very-light-scrypt.json: password "" (keystore_passphrase_test.go); the key is what the file's address says.
	vls := read("very-light-scrypt.json")
	{
		k, err := keystore.DecryptKey(vls, "")
		if err != nil {
			ev.Broken("very-light-scrypt.json does not decrypt: %v", err)
		}
		if k.Address != common.HexToAddress("45dea0fb0bba44f4fcf290bba71fd57d7117cbb8") {
			ev.Broken("very-light-scrypt.json decrypts to %x", k.Address)
		}
		mk("very-light-scrypt", vls, "", hex.EncodeToString(crypto.FromECDSA(k.PrivateKey)), true)
	}
	for _, f := range []string{"v3_test_vector.json", "v1_test_vector.json"} {
		objs := topLevelObjects(read(f))
		names := make([]string, 0, len(objs))
		for n := range objs {
			names = append(names, n)
		}
		sort.Strings(names)
		for _, n := range names {
			o := objs[n]
			sub := topLevelObjects(o)
			js, okj := sub["json"]
			pw, okp := sub["password"]
			pr, okr := sub["priv"]
			if !okj || !okp || !okr {
				ev.Broken("vector %s/%s lacks json/password/priv", f, n)
			}
			cheap := bytes.Contains(js, []byte(`"n" : 2,`))
			mk(n, js, strings.Trim(string(pw), `"`), strings.Trim(string(pr), `"`), cheap)
		}
	}
	return out
}

// ---- outcome of one use of a key file -----------------------------------------------------------

type outcome struct {
	kind string // "error:<class>", "original", "other-key", "other-address", "panic"
	msg  string
}

func errClass(err error) string {
	s := err.Error()
	switch {
	case err == keystore.ErrDecrypt:
		return "mac-or-padding"
	case err == keystore.ErrNoMatch:
		return "no-such-account"
	case strings.Contains(s, "mismatch"):
		return "address-mismatch"
	case strings.Contains(s, "scrypt:"):
		return "scrypt-params"
	case strings.Contains(s, "not supported"), strings.Contains(s, "nsupported"):
		return "unsupported"
	case strings.Contains(s, "encoding/hex"):
		return "hex"
	case strings.Contains(s, "json:"), strings.Contains(s, "invalid character"), strings.Contains(s, "unexpected end of JSON"), strings.Contains(s, "JSON"):
		return "json"
	}
	return "other"
}

func classify(k *keystore.Key, err error, want *base) outcome {
	if err != nil {
		return outcome{"error:" + errClass(err), err.Error()}
	}
	if k == nil || k.PrivateKey == nil {
		return outcome{"other-key", "nil key without error"}
	}
	got := k.PrivateKey.Serialize() // 32 bytes, zero padded
	if !bytes.Equal(got, want.d) {
		return outcome{"other-key", fmt.Sprintf("key %x address %x", got, k.Address)}
	}
	if k.Address != want.addr {
		return outcome{"other-address", fmt.Sprintf("address %x", k.Address)}
	}
	return outcome{"original", ""}
}

// decryptOutcome runs the real DecryptKey.
func decryptOutcome(js []byte, pass string, want *base) (o outcome) {
	defer func() {
		if r := recover(); r != nil {
			o = outcome{"panic", fmt.Sprint(r)}
		}
	}()
	k, err := keystore.DecryptKey(js, pass)
	return classify(k, err, want)
}

var signHash = sha256.Sum256([]byte("c20 message to sign"))

type ksWorker struct {
	dir  string
	seq  int
	udir bool
}

func newKsWorker(tag string) *ksWorker {
	scr := os.Getenv("VERIF_SCRATCH")
	if scr == "" {
		scr = filepath.Join("/var/tmp", fmt.Sprintf("verif-c20-%d", os.Getpid()))
	}
	d := filepath.Join(scr, "ks-"+tag)
	if err := os.MkdirAll(d, 0o700); err != nil {
		ev.Broken("mkdir %s: %v", d, err)
	}
	return &ksWorker{dir: d}
}

func (w *ksWorker) freshDir() string {
	w.seq++
	d := filepath.Join(w.dir, fmt.Sprintf("d%d", w.seq))
	os.RemoveAll(d)
	if err := os.MkdirAll(d, 0o700); err != nil {
		ev.Broken("mkdir %s: %v", d, err)
	}
	return d
}

// unlockOutcome puts the file into an otherwise empty key directory, opens a KeyStore on it and
// tries to unlock every account the store lists (plus the original address and the bare file path),
// then signs with whatever got unlocked. The worst outcome is returned.
func (w *ksWorker) unlockOutcome(js []byte, pass string, want *base) (o outcome) {
	dir := filepath.Join(w.dir, "u")
	if !w.udir {
		os.MkdirAll(dir, 0o700)
		w.udir = true
	}
	path := filepath.Join(dir, "UTC--2026-01-01T00-00-00.000000000Z--keyfile") // the only file in the directory
	if err := os.WriteFile(path, js, 0o600); err != nil {
		ev.Broken("write %s: %v", path, err)
	}
	defer func() {
		if r := recover(); r != nil {
			o = outcome{"panic", fmt.Sprint(r)}
		}
	}()
	ks := keystore.NewKeyStore(dir, 2, 1)
	tries := ks.Accounts()
	if len(tries) != 1 || tries[0].Address != want.addr {
		// the store does not list exactly the original account: also ask for it by address and by file
		tries = append(tries, accounts.Account{Address: want.addr}, accounts.Account{URL: accounts.URL{Scheme: keystore.KeyStoreScheme, Path: path}})
	}
	worst := outcome{"error:no-such-account", ""}
	rank := func(k string) int {
		switch {
		case k == "panic":
			return 5
		case k == "other-key":
			return 4
		case k == "other-address":
			return 3
		case k == "original":
			return 2
		case k == "error:no-such-account":
			return 0
		}
		return 1
	}
	for _, a := range tries {
		var cur outcome
		found, err := ks.Find(a)
		if err != nil {
			cur = outcome{"error:" + errClass(err), err.Error()}
		} else if err := ks.Unlock(found, pass); err != nil {
			cur = outcome{"error:" + errClass(err), err.Error()}
		} else {
			sig, err := ks.SignHash(accounts.Account{Address: found.Address}, signHash[:])
			if err != nil {
				cur = outcome{"other-key", "unlocked but cannot sign: " + err.Error()}
			} else if pub, err := crypto.SigToPub(signHash[:], sig); err != nil {
				cur = outcome{"other-key", "signature does not recover: " + err.Error()}
			} else if signer := crypto.PubkeyToAddress(pub); signer != want.addr {
				cur = outcome{"other-key", fmt.Sprintf("unlocked account %x signs as %x", found.Address, signer)}
			} else if found.Address != want.addr {
				cur = outcome{"other-address", fmt.Sprintf("account %x unlocked", found.Address)}
			} else {
				cur = outcome{"original", ""}
			}
			ks.Lock(found.Address)
		}
		if rank(cur.kind) > rank(worst.kind) {
			worst = cur
		}
	}
	return worst
}

// importOutcome feeds the file to KeyStore.Import on an empty directory.
func (w *ksWorker) importOutcome(js []byte, pass string, want *base) (o outcome) {
	dir := w.freshDir()
	defer os.RemoveAll(dir)
	defer func() {
		if r := recover(); r != nil {
			o = outcome{"panic", fmt.Sprint(r)}
		}
	}()
	ks := keystore.NewKeyStore(dir, 2, 1)
	a, err := ks.Import(js, pass, "new passphrase")
	if err != nil {
		return outcome{"error:" + errClass(err), err.Error()}
	}
	stored, err := os.ReadFile(a.URL.Path)
	if err != nil {
		return outcome{"other-key", "imported file unreadable: " + err.Error()}
	}
	k, err := keystore.DecryptKey(stored, "new passphrase")
	if err != nil {
		return outcome{"other-key", "imported file does not decrypt: " + err.Error()}
	}
	o = classify(k, nil, want)
	if o.kind == "original" && a.Address != want.addr {
		o = outcome{"other-address", fmt.Sprintf("import returned account %x", a.Address)}
	}
	return o
}

func apiOutcome(w *ksWorker, api string, js []byte, pass string, want *base) outcome {
	switch api {
	case "DecryptKey":
		return decryptOutcome(js, pass, want)
	case "KeyStore.Unlock":
		return w.unlockOutcome(js, pass, want)
	case "KeyStore.Import":
		return w.importOutcome(js, pass, want)
	}
	ev.Broken("unknown api %q", api)
	return outcome{}
}

func bad(o outcome) bool {
	return o.kind == "panic" || o.kind == "other-key" || o.kind == "other-address"
}

func oracleName(o outcome) string {
	if o.kind == "panic" {
		return "no-panic"
	}
	return "error-or-original-key"
}

// report re-evaluates a failing case three times and then reports it.
var reported sync.Map // signature -> number of cases

func report(run *ev.Run, w *ksWorker, scenario, api, field string, b *base, js []byte, pass string, o outcome, extra map[string]interface{}) {
	presig := scenario + "/" + api + "/" + field + "/" + panicClass(o) + fmt.Sprint(bytes.Contains(bytes.ToLower(b.json), []byte(`"address"`)))
	if n, dup := reported.LoadOrStore(presig, new(atomic.Int64)); dup {
		n.(*atomic.Int64).Add(1)
		return // same defect, same field, same API: already re-evaluated and reported once
	}
	for i := 0; i < 3; i++ {
		if again := apiOutcome(w, api, js, pass, b); again.kind != o.kind {
			ev.Broken("verdict flips for %s %s %s: %s then %s", scenario, api, b.name, o.kind, again.kind)
		}
	}
	detail := map[string]interface{}{
		"api": api, "base": b.name, "field": field, "keyfile": string(js), "passphrase_hex": hex.EncodeToString([]byte(pass)),
		"want_key": hex.EncodeToString(b.d), "want_address": hex.EncodeToString(b.addr[:]),
		"observed": o.kind, "observed_detail": o.msg, "original_keyfile": string(b.json),
	}
	for k, v := range extra {
		detail[k] = v
	}
	detail["format"] = b.format
	fieldGroup := strings.TrimPrefix(field, "crypto.")
	if o.kind == "other-key" && !bytes.Contains(bytes.ToLower(b.json), []byte(`"address"`)) {
		// nothing in such a file says which key it holds: no reader can notice a changed IV
		fieldGroup += "[file-without-address]"
	}
	oracle := oracleName(o)
	if o.kind != "panic" {
		if scenario == "wrong-passphrase" && field != "hmac-equivalent" {
			oracle = "fails-with-error"
		} else if strings.HasPrefix(scenario, "roundtrip") {
			oracle = "yields-original-key"
		}
	}
	run.Violate(ev.Violation{Scenario: scenario, Oracle: oracle, CaseID: panicClass(o) + "/" + fieldGroup + "/" + api, Detail: detail})
	if os.Getenv("VERIF_DEBUG") != "" {
		fmt.Printf("NOTE debug-signature %s/%s/%s/%s/%s\n", scenario, oracle, panicClass(o), fieldGroup, api)
	}
}

// panicClass keeps one signature per distinct failure mechanism.
func panicClass(o outcome) string {
	if o.kind != "panic" {
		return o.kind
	}
	m := o.msg
	switch {
	case strings.Contains(m, "divide by zero"):
		return "panic:divide-by-zero"
	case strings.Contains(m, "slice bounds"), strings.Contains(m, "out of range"):
		return "panic:slice-bounds"
	case strings.Contains(m, "interface conversion"):
		return "panic:type-assertion"
	case strings.Contains(m, "IV length"):
		return "panic:iv-length"
	case strings.Contains(m, "makeslice"), strings.Contains(m, "len out of range"):
		return "panic:makeslice"
	case strings.Contains(m, "nil pointer"):
		return "panic:nil-pointer"
	}
	if len(m) > 40 {
		m = m[:40]
	}
	return "panic:" + m
}

// ---- the check ----------------------------------------------------------------------------------

func TestCheck(t *testing.T) {
	log.Root().SetHandler(log.DiscardHandler())
	t0 := time.Now()
	debug.SetGCPercent(2000) // tiny live heap, high allocation rate: the default makes the collector run every few ms
	run := ev.Start("exploration")
	run.Rule = "cases are (key file, passphrase, API) triples: key files are composed by the harness from a reference implementation of the v3/v1 formats " +
		"with salt and IV fixed per base (or taken from testdata/testkeystore), then every byte of the file is altered (substitution over a per-token alphabet, " +
		"deletion, insertion in numbers, one-byte truncation/extension of hex strings); passphrases are every edit-distance-1 neighbour over an 8-rune alphabet (letters, digit, space, non-ASCII, NUL, LF, CR). " +
		"A class is (format family, JSON path of the altered token, kind of alteration, API, outcome class) and is only counted when the real code ran on it."
	run.Assume("private keys: {1, 2, N-1, one and two leading zero bytes, two ordinary}; passphrases: {empty, 1 char, 200 chars, non-ASCII, one with leading space and trailing tab CR LF} (+ 64/65 bytes and embedded NUL in thorough)")
	run.Assume("tamper bases use scrypt N=2,r=8,p=1 / pbkdf2 c=2; the standard (N=2^18) and light (N=2^12,p=6) parameter sets are round-tripped only")
	run.Assume("two passphrases with the same RFC 2104 HMAC key (zero padding below 64 bytes, SHA-256 above) are the same credential: scrypt and PBKDF2 cannot distinguish them; such neighbours may unlock, but only to the original key")
	run.Assume("EncryptKey output (random salt/IV/uuid) is used for round trips only; no verdict depends on the draw")

	keys := keyLattice()
	if keys[0].addr != common.HexToAddress("7e5f4552091a69125d5dfcb7b8c2659029395bdf") {
		ev.Broken("address of private key 1 is %x", keys[0].addr)
	}
	w0 := newKsWorker("main")
	defer os.RemoveAll(w0.dir)

	if d := ev.Replay(); d != nil {
		replay(run, w0, d)
		run.Finish()
	}

	deadline := run.Deadline(50*time.Second, 12*time.Minute)
	passes := passLattice(run.Thorough())

	// -- 1. reference differential + EncryptKey/DecryptKey round trips ---------------------------
	phase := func(name string) {
		if os.Getenv("VERIF_DEBUG") != "" {
			fmt.Printf("NOTE phase %s done at %.1fs evals=%d\n", name, time.Since(t0).Seconds(), run.Evals())
		}
	}
	roundTrips(run, keys, passes)
	phase("roundtrips")

	// -- 2. KeyStore API round trips -----------------------------------------------------------
	keystoreRoundTrips(run, w0, keys, passes)
	concurrentStores(run)
	phase("keystore-api")

	// -- 3. bases --------------------------------------------------------------------------------
	formats := []string{"v3-scrypt", "v3-pbkdf2", "v1-scrypt"}
	if run.Thorough() {
		formats = append(formats, "v1-pbkdf2")
	}
	bases := composedBases(keys, passes, formats)
	bases = append(bases, composedBases(keys[3:5], passes[:2], []string{"v3-scrypt-short"})...)
	bases = append(bases, composedBases(keys[:2], passes[:1], []string{"v3-scrypt-0x", "v3-scrypt-0X"})...)
	vecs := repoVectors()
	for _, v := range vecs {
		if v.cheap {
			bases = append(bases, v.base)
		}
	}
	// every base must decrypt to its key through all three APIs before it is altered
	for i := range bases {
		b := &bases[i]
		for _, api := range []string{"DecryptKey", "KeyStore.Unlock", "KeyStore.Import"} {
			if api == "KeyStore.Unlock" && !bytes.Contains(bytes.ToLower(b.json), []byte(`"address"`)) {
				continue // files without an address field are not listed by the account cache
			}
			o := apiOutcome(w0, api, b.json, b.pass, b)
			run.Eval(1)
			if o.kind != "original" {
				report(run, w0, "roundtrip-reference-file", api, "-", b, b.json, b.pass, o, nil)
			} else {
				run.Class("base|" + b.format + "|" + api + "|original")
			}
		}
	}
	// expensive repository vectors: decrypt once (pbkdf2 c=262144 in both tiers, scrypt N=2^18 in thorough)
	for i := range vecs {
		v := &vecs[i]
		if v.cheap {
			continue
		}
		if run.Quick() && !strings.Contains(v.name, "pbkdf2") {
			continue
		}
		o := decryptOutcome(v.json, v.pass, &v.base)
		run.Eval(1)
		if o.kind != "original" {
			report(run, w0, "roundtrip-reference-file", "DecryptKey", "-", &v.base, v.json, v.pass, o, nil)
		} else {
			run.Class("base|" + v.format + "|DecryptKey|original")
		}
		o = decryptOutcome(v.json, v.pass+"x", &v.base)
		run.Eval(1)
		if !strings.HasPrefix(o.kind, "error:") {
			report(run, w0, "wrong-passphrase", "DecryptKey", "-", &v.base, v.json, v.pass+"x", o, nil)
		}
	}
	run.Set("bases", len(bases))

	// -- 4. passphrases at edit distance one -----------------------------------------------------
	phase("bases")
	wrongPassphrases(run, tamperBases(run, bases), deadline)
	phase("passphrases")

	// -- 5. every single-character alteration ----------------------------------------------------
	tamperAll(run, tamperBases(run, bases), deadline)
	phase("tamper")

	run.Finish()
}

// roundTrips: (a) the real DecryptKey reads what the reference composer writes - done for all bases
// in TestCheck; (b) the reference reader reads what the real EncryptKey writes; (c) DecryptKey reads it.
func roundTrips(run *ev.Run, keys []keyCase, passes []passCase) {
	type job struct {
		k    keyCase
		p    passCase
		n, P int
		tag  string
	}
	var jobs []job
	for _, k := range keys {
		for _, p := range passes {
			jobs = append(jobs, job{k, p, 2, 1, "veryLight"})
		}
	}
	jobs = append(jobs, job{keys[3], passes[3], keystore.LightScryptN, keystore.LightScryptP, "light"})
	if run.Thorough() {
		jobs = append(jobs, job{keys[4], passes[2], keystore.StandardScryptN, keystore.StandardScryptP, "standard"})
		jobs = append(jobs, job{keys[2], passes[0], 1 << 10, 3, "n1024p3"})
	}
	w := newKsWorker("rt")
	defer os.RemoveAll(w.dir)
	ev.ParallelFor(len(jobs), func(i int) {
		j := jobs[i]
		b := &base{name: "EncryptKey/" + j.tag + "/key=" + j.k.name + "/pass=" + j.p.name, format: "v3-scrypt", pass: j.p.pass, d: j.k.d, addr: j.k.addr}
		key := &keystore.Key{Id: uuid.Parse(fixedUUID), Address: j.k.addr, PrivateKey: clonePriv(j.k.priv)}
		var js []byte
		var err error
		func() {
			defer func() {
				if r := recover(); r != nil {
					err = fmt.Errorf("panic: %v", r)
				}
			}()
			js, err = keystore.EncryptKey(key, j.p.pass, j.n, j.P)
		}()
		run.Eval(1)
		if err != nil {
			run.Violate(ev.Violation{Scenario: "roundtrip", Oracle: "encrypt-succeeds", CaseID: "EncryptKey/" + j.tag,
				Detail: map[string]interface{}{"key": hex.EncodeToString(j.k.d), "passphrase_hex": hex.EncodeToString([]byte(j.p.pass)), "error": err.Error()}})
			return
		}
		b.json = js
		// the private key handed to EncryptKey must be left intact
		if !bytes.Equal(crypto.FromECDSA(key.PrivateKey), j.k.d) {
			run.Violate(ev.Violation{Scenario: "roundtrip", Oracle: "encrypt-leaves-key-intact", CaseID: "EncryptKey/" + j.tag,
				Detail: map[string]interface{}{"key": hex.EncodeToString(j.k.d)}})
		}
		// reference reader
		d, addr, err := refDecrypt(js, j.p.pass)
		if err != nil || !bytes.Equal(pad32(d), j.k.d) || !strings.EqualFold(addr, hex.EncodeToString(j.k.addr[:])) || len(d) != 32 {
			run.Violate(ev.Violation{Scenario: "roundtrip", Oracle: "reference-reader-recovers-key", CaseID: "EncryptKey/" + j.tag + "/key=" + j.k.name,
				Detail: map[string]interface{}{"keyfile": string(js), "passphrase_hex": hex.EncodeToString([]byte(j.p.pass)), "want_key": hex.EncodeToString(j.k.d),
					"got_key": hex.EncodeToString(d), "got_address": addr, "error": fmt.Sprint(err)}})
		} else {
			run.Class("roundtrip|EncryptKey->reference|" + j.tag + "|key=" + j.k.name)
		}
		o := decryptOutcome(js, j.p.pass, b)
		run.Eval(1)
		if o.kind != "original" {
			report(run, w, "roundtrip", "DecryptKey", "-", b, js, j.p.pass, o, nil)
		} else {
			run.Class("roundtrip|EncryptKey->DecryptKey|" + j.tag + "|key=" + j.k.name)
		}
		if i < 3 {
			run.Sample(map[string]interface{}{"scenario": "roundtrip", "key": j.k.name, "pass": j.p.name, "scrypt": j.tag, "outcome": o.kind})
		}
		// a near-miss passphrase on the fresh file (the verdict is a MAC comparison: independent of the salt drawn)
		if o2 := decryptOutcome(js, j.p.pass+"a", b); !strings.HasPrefix(o2.kind, "error:") {
			report(run, w, "wrong-passphrase", "DecryptKey", "-", b, js, j.p.pass+"a", o2, nil)
		}
		run.Eval(1)
	})
}

func clonePriv(p *btcec.PrivateKey) *btcec.PrivateKey {
	c, _ := btcec.PrivKeyFromBytes(p.Serialize())
	return c
}

// concurrentStores: several goroutines store distinct known keys into ONE key directory at the same time
// (a node serving personal_importRawKey / personal_newAccount over several connections does this). At
// quiescence every account's file decrypts, with the passphrase it was stored under, to its own key. The
// goroutines run free; the oracle is the quiescent state only.
func concurrentStores(run *ev.Run) {
	w := newKsWorker("concurrent")
	defer os.RemoveAll(w.dir)
	rounds := 3
	if run.Thorough() {
		rounds = 25
	}
	for r := 0; r < rounds; r++ {
		ks := keystore.NewKeyStore(w.freshDir(), 2, 1)
		const workers, per = 8, 6
		type stored struct {
			d    []byte
			pass string
			acc  accounts.Account
			err  error
		}
		res := make([][]stored, workers)
		var wg sync.WaitGroup
		for g := 0; g < workers; g++ {
			wg.Add(1)
			go func(g int) {
				defer wg.Done()
				for i := 0; i < per; i++ {
					d := fixedBytes("concurrent-key", fmt.Sprintf("%d/%d/%d", r, g, i), 32)
					d[0] &= 0x7f
					priv, _ := btcec.PrivKeyFromBytes(d)
					pass := fmt.Sprintf("pass-%d-%d", g, i%2) // two passphrases per worker: same-passphrase overwrites would otherwise decrypt
					acc, err := ks.ImportECDSA(priv, pass)
					res[g] = append(res[g], stored{d, pass, acc, err})
				}
			}(g)
		}
		wg.Wait()
		run.Eval(workers * per)
		for g := range res {
			for _, st := range res[g] {
				if st.err != nil {
					run.Violate(ev.Violation{Scenario: "keystore-concurrent", Oracle: "store-succeeds", CaseID: "ImportECDSA", Detail: map[string]interface{}{"observed": st.err.Error()}})
					return
				}
				js, err := os.ReadFile(st.acc.URL.Path)
				if err != nil {
					run.Violate(ev.Violation{Scenario: "keystore-concurrent", Oracle: "file-holds-its-own-key", CaseID: "ImportECDSA", Detail: map[string]interface{}{"observed": "key file of a successfully stored account missing: " + err.Error()}})
					return
				}
				k, err := keystore.DecryptKey(js, st.pass)
				if err != nil || !bytes.Equal(pad32(k.PrivateKey.Serialize()), st.d) {
					run.Violate(ev.Violation{Scenario: "keystore-concurrent", Oracle: "file-holds-its-own-key", CaseID: "ImportECDSA",
						Detail: map[string]interface{}{"observed": fmt.Sprintf("after %d goroutines stored %d keys each into one directory, the file of account %x does not decrypt to the key stored under it (error %v)", workers, per, st.acc.Address, err)}})
					return
				}
			}
		}
		run.Class("keystore-concurrent/round-ok")
	}
}

// keystoreRoundTrips drives NewAccount / ImportECDSA / Unlock / Lock / Export / Import / Update / Delete.
func keystoreRoundTrips(run *ev.Run, w0 *ksWorker, keys []keyCase, passes []passCase) {
	type job struct {
		k keyCase
		p passCase
	}
	var jobs []job
	for _, k := range keys {
		for _, p := range passes {
			jobs = append(jobs, job{k, p})
		}
	}
	var wseq atomic.Int64
	ev.ParallelFor(len(jobs), func(i int) {
		j := jobs[i]
		w := newKsWorker(fmt.Sprintf("api%d", wseq.Add(1)))
		defer os.RemoveAll(w.dir)
		id := "key=" + j.k.name + "/pass=" + j.p.name
		fail := func(step, msg string) {
			run.Violate(ev.Violation{Scenario: "keystore-api", Oracle: "roundtrip", CaseID: step,
				Detail: map[string]interface{}{"case": id, "step": step, "key": hex.EncodeToString(j.k.d), "passphrase_hex": hex.EncodeToString([]byte(j.p.pass)), "observed": msg}})
		}
		defer func() {
			if r := recover(); r != nil {
				fail("panic", fmt.Sprint(r))
			}
		}()
		signsAs := func(ks *keystore.KeyStore, a accounts.Account) (common.Address, error) {
			sig, err := ks.SignHash(a, signHash[:])
			if err != nil {
				return common.Address{}, err
			}
			pub, err := crypto.SigToPub(signHash[:], sig)
			if err != nil {
				return common.Address{}, err
			}
			return crypto.PubkeyToAddress(pub), nil
		}
		pass := j.p.pass
		wrong := pass + "B"
		ks := keystore.NewKeyStore(w.freshDir(), 2, 1)
		a, err := ks.ImportECDSA(clonePriv(j.k.priv), pass)
		run.Eval(1)
		if err != nil {
			fail("ImportECDSA", err.Error())
			return
		}
		if a.Address != j.k.addr {
			fail("ImportECDSA", fmt.Sprintf("account %x for key with address %x", a.Address, j.k.addr))
		}
		if _, err := ks.ImportECDSA(clonePriv(j.k.priv), pass); err == nil {
			fail("ImportECDSA-duplicate", "second import of the same key accepted")
		}
		stored, _ := os.ReadFile(a.URL.Path)
		b := &base{name: "keystore/" + id, format: "v3-scrypt", json: stored, pass: pass, d: j.k.d, addr: j.k.addr}
		if o := decryptOutcome(stored, pass, b); o.kind != "original" {
			fail("stored-file-decrypts", o.kind+" "+o.msg)
		}
		if d, _, err := refDecrypt(stored, pass); err != nil || !bytes.Equal(pad32(d), j.k.d) {
			fail("stored-file-reference-decrypts", fmt.Sprintf("%x %v", d, err))
		}
		if _, err := signsAs(ks, a); err != keystore.ErrLocked {
			fail("locked-before-unlock", fmt.Sprint(err))
		}
		if err := ks.Unlock(a, wrong); err == nil {
			fail("Unlock-wrong-passphrase", "accepted")
		}
		if _, err := signsAs(ks, a); err != keystore.ErrLocked {
			fail("locked-after-failed-unlock", fmt.Sprint(err))
		}
		run.Eval(2)
		if err := ks.Unlock(a, pass); err != nil {
			fail("Unlock", err.Error())
			return
		}
		if s, err := signsAs(ks, a); err != nil || s != j.k.addr {
			fail("sign-after-Unlock", fmt.Sprintf("%x %v", s, err))
		}
		// a wrong passphrase is refused also while the account is already unlocked (indefinitely, then
		// with a timeout): unlocking again must decrypt again
		if err := ks.Unlock(a, wrong); err == nil {
			fail("Unlock-wrong-passphrase-while-unlocked", "accepted")
		}
		if err := ks.TimedUnlock(a, wrong, time.Minute); err == nil {
			fail("TimedUnlock-wrong-passphrase-while-unlocked", "accepted")
		}
		if err := ks.TimedUnlock(a, pass, time.Minute); err != nil {
			fail("TimedUnlock", err.Error())
		}
		if err := ks.TimedUnlock(a, wrong, time.Minute); err == nil {
			fail("TimedUnlock-wrong-passphrase-while-timed-unlocked", "accepted")
		}
		if s, err := signsAs(ks, a); err != nil || s != j.k.addr {
			fail("sign-after-refused-unlocks", fmt.Sprintf("%x %v", s, err))
		}
		run.Eval(4)
		tx := types.NewTransaction(0, common.Address{1}, big.NewInt(1), 21000, big.NewInt(1), nil)
		if stx, err := ks.SignTx(a, tx, big.NewInt(61717561)); err != nil {
			fail("SignTx", err.Error())
		} else if from, err := types.Sender(types.NewEIP155Signer(big.NewInt(61717561)), stx); err != nil || from != j.k.addr {
			fail("SignTx-sender", fmt.Sprintf("%x %v", from, err))
		}
		ks.Lock(a.Address)
		if _, err := signsAs(ks, a); err != keystore.ErrLocked {
			fail("locked-after-Lock", fmt.Sprint(err))
		}
		if sig, err := ks.SignHashWithPassphrase(a, pass, signHash[:]); err != nil {
			fail("SignHashWithPassphrase", err.Error())
		} else if pub, err := crypto.SigToPub(signHash[:], sig); err != nil || crypto.PubkeyToAddress(pub) != j.k.addr {
			fail("SignHashWithPassphrase-signer", fmt.Sprint(err))
		}
		if _, err := ks.SignHashWithPassphrase(a, wrong, signHash[:]); err == nil {
			fail("SignHashWithPassphrase-wrong-passphrase", "accepted")
		}
		run.Eval(4)
		// Export / Import
		if _, err := ks.Export(a, wrong, "x"); err == nil {
			fail("Export-wrong-passphrase", "accepted")
		}
		exp, err := ks.Export(a, pass, "export pass")
		if err != nil {
			fail("Export", err.Error())
			return
		}
		if o := decryptOutcome(exp, "export pass", b); o.kind != "original" {
			fail("Export-decrypts", o.kind+" "+o.msg)
		}
		if o := decryptOutcome(exp, pass, b); pass != "export pass" && !strings.HasPrefix(o.kind, "error:") {
			fail("Export-old-passphrase", o.kind)
		}
		ks2 := keystore.NewKeyStore(w.freshDir(), 2, 1)
		if _, err := ks2.Import(exp, wrong, "third"); err == nil {
			fail("Import-wrong-passphrase", "accepted")
		}
		a2, err := ks2.Import(exp, "export pass", "third")
		if err != nil {
			fail("Import", err.Error())
			return
		}
		if a2.Address != j.k.addr {
			fail("Import-address", fmt.Sprintf("%x", a2.Address))
		}
		if err := ks2.Unlock(a2, "export pass"); err == nil {
			fail("Import-old-passphrase-unlocks", "accepted")
		}
		if err := ks2.Unlock(a2, "third"); err != nil {
			fail("Unlock-imported", err.Error())
		} else if s, err := signsAs(ks2, a2); err != nil || s != j.k.addr {
			fail("sign-imported", fmt.Sprintf("%x %v", s, err))
		}
		run.Eval(6)
		// Update
		if err := ks.Update(a, wrong, "u"); err == nil {
			fail("Update-wrong-passphrase", "accepted")
		}
		newPass := pass + "é"
		// the file being replaced is longer than what Update writes (a pretty-printed file, as other
		// wallets write them): the rewrite must replace it, not overlay it
		if raw, err := os.ReadFile(a.URL.Path); err == nil {
			var buf bytes.Buffer
			if json.Indent(&buf, raw, "", "      ") == nil {
				if err := os.WriteFile(a.URL.Path, buf.Bytes(), 0600); err != nil {
					ev.Broken("cannot rewrite key file: %v", err)
				}
				if err := ks.Unlock(a, pass); err != nil {
					fail("Unlock-pretty-printed-file", err.Error())
				}
				ks.Lock(a.Address)
			}
		}
		if err := ks.Update(a, pass, newPass); err != nil {
			fail("Update", err.Error())
			return
		}
		if err := ks.Unlock(a, pass); err == nil {
			fail("Update-old-passphrase-unlocks", "accepted")
		}
		if nf, err := os.ReadFile(a.URL.Path); err != nil {
			fail("file-after-Update", err.Error())
		} else if k, err := keystore.DecryptKey(nf, newPass); err != nil || k.Address != j.k.addr {
			fail("file-after-Update", fmt.Sprintf("the rewritten key file does not decrypt with the new passphrase: %v", err))
		}
		if err := ks.Unlock(a, newPass); err != nil {
			fail("Unlock-after-Update", err.Error())
		} else if s, err := signsAs(ks, a); err != nil || s != j.k.addr {
			fail("sign-after-Update", fmt.Sprintf("%x %v", s, err))
		}
		ks.Lock(a.Address)
		// Delete
		if err := ks.Delete(a, pass); err == nil {
			fail("Delete-wrong-passphrase", "accepted")
		}
		if _, err := os.Stat(a.URL.Path); err != nil {
			fail("Delete-wrong-passphrase", "file gone")
		}
		if err := ks.Delete(a, newPass); err != nil {
			fail("Delete", err.Error())
		}
		if ks.HasAddress(a.Address) {
			fail("Delete", "account still listed")
		}
		run.Eval(5)
		// NewAccount (random key: only self-consistency is checked)
		na, err := ks.NewAccount(pass)
		if err != nil {
			fail("NewAccount", err.Error())
			return
		}
		if err := ks.Unlock(na, wrong); err == nil {
			fail("NewAccount-wrong-passphrase", "accepted")
		}
		if err := ks.Unlock(na, pass); err != nil {
			fail("NewAccount-Unlock", err.Error())
		} else if s, err := signsAs(ks, na); err != nil || s != na.Address {
			fail("NewAccount-sign", fmt.Sprintf("%x %v", s, err))
		}
		nf, _ := os.ReadFile(na.URL.Path)
		if k, err := keystore.DecryptKey(nf, pass); err != nil || k.Address != na.Address || crypto.PubkeyToAddress(k.PrivateKey.PubKey()) != na.Address {
			fail("NewAccount-file", fmt.Sprint(err))
		}
		run.Eval(3)
		run.Class("keystore-api|key=" + j.k.name + "|pass=" + j.p.name)
		if i == 0 {
			run.Sample(map[string]interface{}{"scenario": "keystore-api", "case": id, "steps": "ImportECDSA,Unlock,SignHash,SignTx,Lock,SignHashWithPassphrase,Export,Import,Update,Delete,NewAccount"})
		}
	})
}

func wrongPassphrases(run *ev.Run, bases []base, deadline time.Time) {
	w := newKsWorker("wp")
	defer os.RemoveAll(w.dir)
	var capped atomic.Bool
	var equiv, total atomic.Int64
	ev.ParallelFor(len(bases), func(i int) {
		b := &bases[i]
		if time.Now().After(deadline) {
			capped.Store(true)
			return
		}
		orig := hmacKey(b.pass)
		for _, p := range edits1(b.pass) {
			o := decryptOutcome(b.json, p, b)
			run.Eval(1)
			total.Add(1)
			same := hmacKey(p) == orig
			switch {
			case same:
				equiv.Add(1)
				if bad(o) {
					report(run, w, "wrong-passphrase", "DecryptKey", "hmac-equivalent", b, b.json, p, o, nil)
				} else {
					run.Class("passphrase|hmac-equivalent|" + b.format + "|" + o.kind)
				}
			case strings.HasPrefix(o.kind, "error:"):
				run.Class("passphrase|" + b.format + "|len=" + lenClass(b.pass) + "|" + o.kind)
			default:
				report(run, w, "wrong-passphrase", "DecryptKey", "-", b, b.json, p, o, map[string]interface{}{"right_passphrase_hex": hex.EncodeToString([]byte(b.pass))})
			}
		}
	})
	if capped.Load() {
		run.Cap("deadline reached while enumerating edit-distance-1 passphrases")
	}
	run.Set("passphrase_neighbours", total.Load())
	run.Set("passphrase_neighbours_hmac_equivalent", equiv.Load())
}

func lenClass(p string) string {
	switch n := len(p); {
	case n == 0:
		return "0"
	case n < 64:
		return "<64"
	case n == 64:
		return "64"
	}
	return ">64"
}

// tamperBases: thorough alters every base. Quick alters every cheap repository vector and, per
// format, a few (key, passphrase) pairs chosen so that every key class that changes the plaintext
// handling (leading zero bytes, extreme values) and every passphrase class occurs: the verdict of an
// alteration depends on key and passphrase only through the derived key and the plaintext.
func tamperBases(run *ev.Run, bases []base) []base {
	if run.Thorough() {
		return bases
	}
	pick := map[string]bool{
		"v3-scrypt/key=lead1/pass=empty": true, "v3-scrypt/key=lead1/pass=a": true, "v3-scrypt/key=lead1/pass=long200": true,
		"v3-scrypt/key=lead1/pass=nonascii": true, "v3-scrypt/key=one/pass=nonascii": true, "v3-scrypt/key=n-1/pass=nonascii": true,
		"v3-scrypt/key=lead2/pass=a":        true,
		"v3-pbkdf2/key=lead1/pass=nonascii": true, "v3-pbkdf2/key=ord1/pass=empty": true,
		"v1-scrypt/key=lead1/pass=nonascii": true, "v1-scrypt/key=n-1/pass=long200": true,
		"v3-scrypt-short/key=lead1/pass=a": true, "v3-scrypt-short/key=lead2/pass=empty": true,
	}
	// the formats with a prefixed address member: their first base each
	for _, f := range []string{"v3-scrypt-0x", "v3-scrypt-0X"} {
		for _, b := range bases {
			if b.format == f {
				pick[b.name] = true
				break
			}
		}
	}
	var out []base
	for _, b := range bases {
		if strings.HasPrefix(b.format, "repo-") || pick[b.name] {
			out = append(out, b)
		}
	}
	if len(out) != len(pick)+3 {
		ev.Broken("quick tamper base selection found %d bases, want %d", len(out), len(pick)+3)
	}
	return out
}

// tamperAll applies every alteration to every base through DecryptKey and KeyStore.Unlock (and
// KeyStore.Import whenever DecryptKey returned a key).
func tamperAll(run *ev.Run, bases []base, deadline time.Time) {
	type unit struct {
		b    *base
		toks []token
		ti   int
	}
	var units []unit
	for i := range bases {
		b := &bases[i]
		toks, err := tokenize(b.json)
		if err != nil {
			ev.Broken("cannot tokenize base %s: %v", b.name, err)
		}
		for ti := range toks {
			units = append(units, unit{b, toks, ti})
		}
	}
	seenFmt := map[string]bool{}
	for i := range bases {
		// quick: the first base of each format; thorough: one key under every passphrase of every format, and all repository vectors
		if !seenFmt[bases[i].format] && !strings.Contains(bases[i].format, "_byte_key") ||
			run.Thorough() && (strings.Contains(bases[i].name, "/key=lead1/") || strings.HasPrefix(bases[i].format, "repo-")) {
			seenFmt[bases[i].format] = true
			bases[i].full = true
		}
	}
	var capped atomic.Bool
	var wseq, nmut, nunlock atomic.Int64
	var sampled atomic.Int64
	jobs := ev.Jobs()
	var next atomic.Int64
	var wg sync.WaitGroup
	for g := 0; g < jobs; g++ {
		wg.Add(1)
		go func() {
			defer wg.Done()
			w := newKsWorker(fmt.Sprintf("t%d", wseq.Add(1)))
			defer os.RemoveAll(w.dir)
			classes := map[string]struct{}{}
			defer func() {
				ks := make([]string, 0, len(classes))
				for k := range classes {
					ks = append(ks, k)
				}
				run.Classes(ks)
			}()
			for {
				ui := int(next.Add(1)) - 1
				if ui >= len(units) {
					return
				}
				if time.Now().After(deadline) {
					capped.Store(true)
					return
				}
				u := units[ui]
				b := u.b
				tk := u.toks[u.ti]
				hasAddr := bytes.Contains(bytes.ToLower(b.json), []byte(`"address"`))
				fam := b.format
				for _, m := range mutations(b.json, tk) {
					nmut.Add(1)
					o := decryptOutcome(m.out, b.pass, b)
					run.Eval(1)
					if bad(o) {
						report(run, w, "tamper", "DecryptKey", tk.path, b, m.out, b.pass, o, map[string]interface{}{"alteration": m.desc})
					} else {
						classes["tamper|"+fam+"|"+tk.path+"|"+m.kind+"|DecryptKey|"+o.kind] = struct{}{}
					}
					if b.full && !strings.HasPrefix(o.kind, "error:") {
						// DecryptKey produced a key: what does Import make of the same file?
						oi := w.importOutcome(m.out, b.pass, b)
						run.Eval(1)
						if bad(oi) {
							report(run, w, "tamper", "KeyStore.Import", tk.path, b, m.out, b.pass, oi, map[string]interface{}{"alteration": m.desc})
						} else {
							classes["tamper|"+fam+"|"+tk.path+"|"+m.kind+"|KeyStore.Import|"+oi.kind] = struct{}{}
						}
					}
					if hasAddr && b.full {
						ou := w.unlockOutcome(m.out, b.pass, b)
						run.Eval(1)
						nunlock.Add(1)
						if bad(ou) {
							report(run, w, "tamper", "KeyStore.Unlock", tk.path, b, m.out, b.pass, ou, map[string]interface{}{"alteration": m.desc})
						} else {
							classes["tamper|"+fam+"|"+tk.path+"|"+m.kind+"|KeyStore.Unlock|"+ou.kind] = struct{}{}
						}
						if !bad(o) && o.kind != "original" && ou.kind == "original" && tk.path != "address" {
							// Unlock succeeded where DecryptKey failed on the same bytes: the two paths disagree.
							ev.Broken("Unlock yields the key where DecryptKey fails: base %s alteration %s", b.name, m.desc)
						}
					}
					if sampled.Load() < 3 && o.kind == "original" && tk.kind != 'x' && sampled.Add(1) <= 3 {
						run.Sample(map[string]interface{}{"scenario": "tamper", "base": b.name, "token": tk.path, "alteration": m.desc, "DecryptKey": o.kind})
					}
				}
			}
		}()
	}
	wg.Wait()
	if capped.Load() {
		run.Cap("deadline reached while enumerating key file alterations")
	}
	run.Set("alterations", nmut.Load())
	run.Set("alterations_through_KeyStore.Unlock", nunlock.Load())
}

// replay re-runs exactly one reported case.
func replay(run *ev.Run, w *ksWorker, d *ev.ReplayDoc) {
	get := func(k string) string { s, _ := d.Detail[k].(string); return s }
	api := get("api")
	if d.Scenario == "keystore-api" || api == "" || get("keyfile") == "" {
		fmt.Printf("NOTE replay of %s/%s is not file based; run the tier instead\n", d.Scenario, d.CaseID)
		return
	}
	pass, _ := hex.DecodeString(get("passphrase_hex"))
	wk, _ := hex.DecodeString(get("want_key"))
	b := &base{name: get("base"), format: "replay", json: []byte(get("original_keyfile")), pass: string(pass), d: pad32(wk)}
	copy(b.addr[:], common.FromHex(get("want_address")))
	o := apiOutcome(w, api, []byte(get("keyfile")), string(pass), b)
	run.Eval(1)
	fmt.Printf("NOTE replay %s via %s: %s %s\n", d.CaseID, api, o.kind, o.msg)
	violates := bad(o)
	if d.Scenario == "wrong-passphrase" && get("field") != "hmac-equivalent" {
		violates = !strings.HasPrefix(o.kind, "error:")
	}
	if d.Scenario == "roundtrip" || d.Scenario == "roundtrip-reference-file" {
		violates = o.kind != "original"
	}
	if violates {
		run.Violate(ev.Violation{Scenario: d.Scenario, Oracle: d.Oracle, CaseID: d.CaseID, Detail: d.Detail})
	}
}
