// C15 scaffolding: a scripted chain for the pool, the pre-signed alphabet and the pool invariant.
package c15

import (
	"fmt"
	"math/big"
	"sort"
	"sync"

	"gitlab.com/aquachain/aquachain/aqua/event"
	"gitlab.com/aquachain/aquachain/common"
	"gitlab.com/aquachain/aquachain/core"
	"gitlab.com/aquachain/aquachain/core/state"
	"gitlab.com/aquachain/aquachain/core/types"
	"gitlab.com/aquachain/aquachain/params"
	"gitlab.com/aquachain/aquachain/zzverif/chainkit"
)

// world holds the four scripted heads built once with the repository's block builder.
//
//	H0 = genesis
//	H1 = H0 + block with A's nonces 0 and 1
//	H1x = sibling of H1 without them (reorg target)
//	H2 = child of H1 in which A spends almost everything (balance drop)
//	H2x = empty child of H1x (reorg target one block higher than H1)
type world struct {
	env    *chainkit.Env
	heads  map[string]*types.Block
	blocks map[common.Hash]*types.Block
	txs    []*types.Transaction // alphabet
	names  []string
	A, B   common.Address
	big    *big.Int // value of the "expensive" transactions
}

const gwei = 1000000000

func newWorld() *world {
	env := chainkit.NewEnv(params.TestChainConfig, nil)
	w := &world{env: env, heads: map[string]*types.Block{}, blocks: map[common.Hash]*types.Block{}}
	w.A, w.B = env.Addrs[0], env.Addrs[1]
	bal := new(big.Int).Mul(big.NewInt(1e18), big.NewInt(1000))
	// "expensive": affordable at H0/H1, not after H2 (where A keeps ~1/4 of its balance)
	w.big = new(big.Int).Div(bal, big.NewInt(2))
	mk := func(from int, nonce uint64, price int64, value *big.Int, gas uint64) *types.Transaction {
		tx, err := types.SignTx(types.NewTransaction(nonce, env.Addrs[2], value, gas, big.NewInt(price), nil), env.Signer, env.Keys[from])
		if err != nil {
			panic(err)
		}
		return tx
	}
	// prices are deliberately not multiples of 100 wei: the replacement threshold old*(100+bump)/100 then
	// differs from formulas that divide first
	one := big.NewInt(1)
	never := new(big.Int).Mul(bal, big.NewInt(2))
	add := func(name string, tx *types.Transaction) {
		w.names = append(w.names, name)
		w.txs = append(w.txs, tx)
	}
	add("A0p100", mk(0, 0, 100*gwei+50, one, 21000))
	add("A0p109", mk(0, 0, 110*gwei+52, one, 21000)) // 3 wei below the exact 10% bump of A0p100 (110000000055)
	add("A0p110", mk(0, 0, 110*gwei+55, one, 21000)) // exactly the bump
	add("A0big", mk(0, 0, 100*gwei+50, w.big, 21000))
	add("A1p100", mk(0, 1, 100*gwei+50, one, 21000))
	add("A1p110", mk(0, 1, 110*gwei+55, one, 21000))
	add("A1never", mk(0, 1, 100*gwei, never, 21000))
	add("A2p100", mk(0, 2, 100*gwei, one, 21000))
	add("A2big", mk(0, 2, 100*gwei, w.big, 21000))
	add("A3p100", mk(0, 3, 100*gwei, one, 21000))
	add("A3big", mk(0, 3, 100*gwei, w.big, 21000))
	add("A3bigp110", mk(0, 3, 110*gwei+55, w.big, 21000))  // a properly bumped replacement of A3p100 that costs far more
	add("A3gas", mk(0, 3, 100*gwei, one, 100000000)) // gas above any block limit
	add("B0p100", mk(1, 0, 100*gwei, one, 21000))
	add("B1p100", mk(1, 1, 100*gwei, one, 21000))
	add("B2p50", mk(1, 2, 50*gwei, one, 21000))

	w.heads["H0"] = env.Genesis
	h1, _ := env.Gen(env.Genesis, chainkit.Faker(), 1, func(i int, g *core.BlockGen) {
		g.AddTx(w.txs[0]) // A0p100
		g.AddTx(w.txs[4]) // A1p100
	})
	w.heads["H1"] = h1[0]
	h1x, _ := env.Gen(env.Genesis, chainkit.Faker(), 1, func(i int, g *core.BlockGen) {
		g.SetExtra([]byte{1})
	})
	w.heads["H1x"] = h1x[0]
	// H2x = child of H1x: from H1 a reorganisation to a branch that is one block LONGER (from H2, of equal length)
	h2x, _ := env.Gen(h1x[0], chainkit.Faker(), 1, func(i int, g *core.BlockGen) {
		g.SetExtra([]byte{2})
	})
	w.heads["H2x"] = h2x[0]
	h2, _ := env.Gen(h1[0], chainkit.Faker(), 1, func(i int, g *core.BlockGen) {
		spend := new(big.Int).Div(new(big.Int).Mul(bal, big.NewInt(3)), big.NewInt(4))
		g.AddTx(mk(0, 2, 100*gwei, spend, 21000))
	})
	w.heads["H2"] = h2[0]
	for _, b := range w.heads {
		w.blocks[b.Hash()] = b
	}
	return w
}

// chain implements the pool's blockChain interface over the scripted heads.
type chain struct {
	w     *world
	mu    sync.Mutex
	head  *types.Block
	feed  event.Feed
	extra map[common.Hash]*types.Block // blocks built during one run (orphan witness)
}

func (c *chain) CurrentBlock() *types.Block {
	c.mu.Lock()
	defer c.mu.Unlock()
	return c.head
}
func (c *chain) GetBlock(h common.Hash, n uint64) *types.Block {
	if b := c.extra[h]; b != nil {
		return b
	}
	return c.w.blocks[h]
}
func (c *chain) StateAt(root common.Hash) (*state.StateDB, error) {
	return state.New(root, state.NewDatabase(c.w.env.GenDB))
}
func (c *chain) SubscribeChainHeadEvent(ch chan<- core.ChainHeadEvent) event.Subscription {
	return c.feed.Subscribe(ch)
}
func (c *chain) setHead(b *types.Block) {
	c.mu.Lock()
	c.head = b
	c.mu.Unlock()
}

// configs
func poolConfigs() map[string]core.TxPoolConfig {
	def := core.DefaultTxPoolConfig
	def.Journal = ""
	tiny := def
	tiny.AccountSlots, tiny.GlobalSlots, tiny.AccountQueue, tiny.GlobalQueue = 1, 2, 2, 3
	nol := def
	nol.NoLocals = true
	// small: room for two senders with different pending counts above the per-account share, so that the
	// pool-wide limit is enforced by equalising several offenders (runSeq preloads A0 A1 A2 B0 under it)
	small := def
	small.AccountSlots, small.GlobalSlots, small.AccountQueue, small.GlobalQueue = 1, 4, 3, 6
	return map[string]core.TxPoolConfig{"default": def, "tiny": tiny, "nolocals": nol, "small": small}
}

// ---- invariant -----------------------------------------------------------------------------------

type snapshot struct {
	pending, queued map[common.Address]types.Transactions
}

func snap(p *core.TxPool) snapshot {
	pe, qu := p.Content()
	return snapshot{pe, qu}
}

func (s snapshot) find(from common.Address, nonce uint64) *types.Transaction {
	for _, tx := range s.pending[from] {
		if tx.Nonce() == nonce {
			return tx
		}
	}
	for _, tx := range s.queued[from] {
		if tx.Nonce() == nonce {
			return tx
		}
	}
	return nil
}

func (s snapshot) has(h common.Hash) bool {
	for _, m := range []map[common.Address]types.Transactions{s.pending, s.queued} {
		for _, txs := range m {
			for _, tx := range txs {
				if tx.Hash() == h {
					return true
				}
			}
		}
	}
	return false
}

func (s snapshot) String() string {
	var out []string
	for _, kv := range []struct {
		n string
		m map[common.Address]types.Transactions
	}{{"P", s.pending}, {"Q", s.queued}} {
		var addrs []string
		for a := range kv.m {
			addrs = append(addrs, a.Hex())
		}
		sort.Strings(addrs)
		for _, ah := range addrs {
			a := common.HexToAddress(ah)
			x := kv.n + ah[2:6] + ":"
			for _, tx := range kv.m[a] {
				x += fmt.Sprintf("%d@%d,", tx.Nonce(), new(big.Int).Div(tx.GasPrice(), big.NewInt(gwei)))
			}
			out = append(out, x)
		}
	}
	return fmt.Sprint(out)
}

// invariant is the predicate form of the pool property; locals = senders that submitted locally and
// were accepted at least once (exempt from limits unless NoLocals).
func invariant(w *world, c *chain, p *core.TxPool, cfg core.TxPoolConfig, locals map[common.Address]bool) []string {
	return invariantX(w, c, p, cfg, locals, false)
}

// invariantX with contentOnly uses one atomic Content() read only (for observers that run concurrently
// with other operations: Stats()/State() are separate lock acquisitions and may see a later state).
func invariantX(w *world, c *chain, p *core.TxPool, cfg core.TxPoolConfig, locals map[common.Address]bool, contentOnly bool) []string {
	return invariantS(w, c, p, cfg, locals, contentOnly, snap(p))
}

func invariantS(w *world, c *chain, p *core.TxPool, cfg core.TxPoolConfig, locals map[common.Address]bool, contentOnly bool, s snapshot) []string {
	var fails []string
	head := c.CurrentBlock()
	st, err := c.StateAt(head.Root())
	if err != nil {
		return []string{"harness: no state for head"}
	}
	totalPending, totalQueued := 0, 0
	allWithinSlots := true
	nonLocalQueued := 0
	for addr, txs := range s.pending {
		cn := st.GetNonce(addr)
		bal := st.GetBalance(addr)
		for i, tx := range txs {
			if tx.Nonce() != cn+uint64(i) {
				fails = append(fails, fmt.Sprintf("pending of %s is not a gap-free run from the chain nonce %d: %s", addr.Hex()[:8], cn, s))
				break
			}
			if tx.Cost().Cmp(bal) > 0 {
				fails = append(fails, fmt.Sprintf("pending transaction nonce %d of %s costs more than the sender's balance at the head", tx.Nonce(), addr.Hex()[:8]))
			}
			if tx.Gas() > head.GasLimit() {
				fails = append(fails, fmt.Sprintf("pending transaction nonce %d of %s needs more gas than the head's gas limit", tx.Nonce(), addr.Hex()[:8]))
			}
		}
		totalPending += len(txs)
		if !locals[addr] && uint64(len(txs)) > cfg.AccountSlots {
			allWithinSlots = false
		}
		if contentOnly {
			continue
		}
		if got, want := p.State().GetNonce(addr), cn+uint64(len(txs)); got != want {
			fails = append(fails, fmt.Sprintf("virtual nonce of %s is %d, chain nonce + pending length is %d", addr.Hex()[:8], got, want))
		}
	}
	for addr, txs := range s.queued {
		seen := map[uint64]bool{}
		for _, tx := range s.pending[addr] {
			seen[tx.Nonce()] = true
		}
		for _, tx := range txs {
			if seen[tx.Nonce()] {
				fails = append(fails, fmt.Sprintf("two transactions for %s nonce %d (pending and queue): %s", addr.Hex()[:8], tx.Nonce(), s))
			}
			seen[tx.Nonce()] = true
		}
		totalQueued += len(txs)
		if !locals[addr] {
			nonLocalQueued += len(txs)
			if uint64(len(txs)) > cfg.AccountQueue {
				fails = append(fails, fmt.Sprintf("non-local %s has %d queued transactions, AccountQueue is %d", addr.Hex()[:8], len(txs), cfg.AccountQueue))
			}
		}
	}
	if uint64(totalPending) > cfg.GlobalSlots && !allWithinSlots {
		fails = append(fails, fmt.Sprintf("%d pending transactions exceed GlobalSlots %d while a non-local account is above AccountSlots %d: %s", totalPending, cfg.GlobalSlots, cfg.AccountSlots, s))
	}
	if uint64(totalQueued) > cfg.GlobalQueue && nonLocalQueued > 0 {
		fails = append(fails, fmt.Sprintf("%d queued transactions exceed GlobalQueue %d and %d of them are non-local: %s", totalQueued, cfg.GlobalQueue, nonLocalQueued, s))
	}
	if contentOnly {
		return fails
	}
	pn, qn := p.Stats()
	if pn != totalPending || qn != totalQueued {
		fails = append(fails, fmt.Sprintf("Stats() = %d/%d but Content() holds %d/%d", pn, qn, totalPending, totalQueued))
	}
	return fails
}

// bumpOK is the replacement rule of the property: price >= old*(100+bump)/100 and > old.
func bumpOK(old, nw *types.Transaction, bump uint64) bool {
	thr := new(big.Int).Div(new(big.Int).Mul(old.GasPrice(), big.NewInt(int64(100+bump))), big.NewInt(100))
	return nw.GasPrice().Cmp(old.GasPrice()) > 0 && nw.GasPrice().Cmp(thr) >= 0
}
