package c15

// Free-running pass under the Go race detector (complement of the exploration, DESIGN.md 9.6): the
// concurrent scenarios K1..K5 on real goroutines against the UNINSTRUMENTED core package, with
// additional readers of every public accessor. No functional oracle beyond "no panic": the
// exhaustive exploration decides the property; this pass only looks for unsynchronised accesses
// that the cooperative scheduler cannot see.

import (
	"encoding/json"
	"math/big"
	"os"
	"sync"
	"testing"
	"time"

	"gitlab.com/aquachain/aquachain/core"
)

func applyFree(cw *cworld, op cop) {
	w := cw.w
	switch op.Kind {
	case "addr":
		cw.p.AddRemote(w.tx(op.Arg))
	case "addl":
		cw.p.AddLocal(w.tx(op.Arg))
	case "price":
		cw.p.SetGasPrice(new(big.Int).Mul(big.NewInt(gwei), big.NewInt(105)))
	case "head":
		nb := w.heads[op.Arg]
		cw.c.setHead(nb)
		cw.c.feed.Send(core.ChainHeadEvent{Block: nb})
	case "observe":
		readAll(cw)
	}
}

func readAll(cw *cworld) {
	p := cw.p
	pend, _ := p.Pending()
	for _, l := range pend {
		for _, tx := range l {
			p.Get(tx.Hash())
		}
	}
	p.Content()
	p.Stats()
	p.State().GetNonce(cw.w.A)
	p.GasPrice()
}

func TestRaceFree(t *testing.T) {
	t0 := time.Now()
	n := 150
	if os.Getenv("VERIF_TIER") == "thorough" {
		n = 2000
	}
	w := newWorld()
	iters := map[string]int{}
	var wg sync.WaitGroup
	for _, sc := range cscenarios() {
		sc := sc
		iters[sc.Name] = n
		wg.Add(1)
		go func() {
			defer wg.Done()
			for i := 0; i < n; i++ {
				cw := newCWorld(w, sc)
				for _, op := range sc.Preload {
					applyFree(cw, op)
				}
				evs := make(chan core.TxPreEvent, 64)
				sub := cw.p.SubscribeTxPreEvent(evs)
				var tw sync.WaitGroup
				for _, ops := range sc.Threads {
					ops := ops
					tw.Add(1)
					go func() {
						defer tw.Done()
						for _, op := range ops {
							applyFree(cw, op)
						}
					}()
				}
				tw.Add(1)
				go func() { defer tw.Done(); readAll(cw); readAll(cw) }()
				tw.Wait()
				readAll(cw)
				sub.Unsubscribe()
				cw.p.Stop()
			}
		}()
	}
	wg.Wait()
	if p := os.Getenv("VERIF_RACE_OUT"); p != "" {
		b, _ := json.Marshal(map[string]interface{}{"shapes": len(iters), "iterations": iters, "wall_s": time.Since(t0).Seconds()})
		os.WriteFile(p, b, 0o644)
	}
}
