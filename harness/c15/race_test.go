package c15

// Free-running pass under the Go race detector (complement of the exploration, DESIGN.md 9.6): the
// concurrent scenarios K1..K5 on real goroutines against the UNINSTRUMENTED core package, with
// additional readers of every public accessor. No functional oracle beyond "no panic": the
// exhaustive exploration decides the property; this pass only looks for unsynchronised accesses
// that the cooperative scheduler cannot see.

import (
	"encoding/json"
	"fmt"
	"math/big"
	"os"
	"sync"
	"testing"
	"time"

	"gitlab.com/aquachain/aquachain/core"
)

func applyFree(cw *cworld, op cop) {
	w := cw.w
	switch op.Kind {
	case "addr":
		cw.p.AddRemote(w.tx(op.Arg))
	case "addl":
		cw.p.AddLocal(w.tx(op.Arg))
	case "price":
		cw.p.SetGasPrice(new(big.Int).Mul(big.NewInt(gwei), big.NewInt(105)))
	case "head":
		nb := w.heads[op.Arg]
		cw.c.setHead(nb)
		cw.c.feed.Send(core.ChainHeadEvent{Block: nb})
	case "observe":
		readAll(cw)
	}
}

func readAll(cw *cworld) {
	p := cw.p
	pend, _ := p.Pending()
	for _, l := range pend {
		for _, tx := range l {
			p.Get(tx.Hash())
		}
	}
	p.Content()
	p.Stats()
	p.State().GetNonce(cw.w.A)
	p.GasPrice()
}

func TestRaceFree(t *testing.T) {
	t0 := time.Now()
	n := 150
	if os.Getenv("VERIF_TIER") == "thorough" {
		n = 2000
	}
	w := newWorld()
	iters := map[string]int{}
	// shape "subscriber queries the pool": the miner's worker handles TxPreEvents on the goroutine that also
	// asks the pool for its pending set. A replacement (same nonce, price bump) submitted meanwhile must
	// return, and its event must arrive (the pool must not wait for its subscribers while holding its lock).
	var fails []string
	for i := 0; i < 20 && len(fails) == 0; i++ {
		sc := cscenarios()[0]
		cw := newCWorld(w, sc)
		evs := make(chan core.TxPreEvent) // unbuffered, like a busy worker
		sub := cw.p.SubscribeTxPreEvent(evs)
		got := make(chan int, 1)
		stop := make(chan struct{})
		go func() {
			n := 0
			for {
				select {
				case <-evs:
					n++
					cw.p.Stats()
					cw.p.Pending()
				case <-stop:
					got <- n
					return
				}
			}
		}()
		ret := make(chan struct{})
		go func() {
			cw.p.AddRemote(w.tx("A0p100"))
			cw.p.AddRemote(w.tx("A0p110"))
			close(ret)
		}()
		select {
		case <-ret:
		case <-time.After(60 * time.Second):
			fails = append(fails, "AddRemote of a same-nonce replacement has not returned after 60 s while a subscriber that queries the pool is handling transaction events (pool lock held while the event is sent)")
		}
		if len(fails) == 0 {
			deadline := time.Now().Add(60 * time.Second)
			for {
				if pend, _ := cw.p.Stats(); pend == 1 {
					break
				}
				if time.Now().After(deadline) {
					break
				}
				time.Sleep(time.Millisecond)
			}
			close(stop)
			<-got
			sub.Unsubscribe()
			cw.p.Stop()
		}
	}
	var wg sync.WaitGroup
	for _, sc := range cscenarios() {
		sc := sc
		iters[sc.Name] = n
		wg.Add(1)
		go func() {
			defer wg.Done()
			for i := 0; i < n; i++ {
				cw := newCWorld(w, sc)
				for _, op := range sc.Preload {
					applyFree(cw, op)
				}
				evs := make(chan core.TxPreEvent, 64)
				sub := cw.p.SubscribeTxPreEvent(evs)
				var tw sync.WaitGroup
				for _, ops := range sc.Threads {
					ops := ops
					tw.Add(1)
					go func() {
						defer tw.Done()
						for _, op := range ops {
							applyFree(cw, op)
						}
					}()
				}
				tw.Add(1)
				go func() { defer tw.Done(); readAll(cw); readAll(cw) }()
				tw.Wait()
				readAll(cw)
				sub.Unsubscribe()
				cw.p.Stop()
			}
		}()
	}
	wg.Wait()
	iters["subscriber-queries-the-pool"] = 20
	for _, f := range fails {
		fmt.Println("RACEPASS-FAIL " + f)
	}
	if len(fails) > 0 {
		t.Fail()
	}
	if p := os.Getenv("VERIF_RACE_OUT"); p != "" {
		b, _ := json.Marshal(map[string]interface{}{"shapes": len(iters), "iterations": iters, "wall_s": time.Since(t0).Seconds()})
		os.WriteFile(p, b, 0o644)
	}
}
