package c15

import (
	"encoding/json"
	"fmt"
	"math/big"
	"os"
	"os/exec"
	"sort"
	"strings"
	"testing"
	"time"

	"gitlab.com/aquachain/aquachain/common"
	"gitlab.com/aquachain/aquachain/core"
	"gitlab.com/aquachain/aquachain/zzverif/ev"
	"gitlab.com/aquachain/aquachain/zzverif/vrt"
)

// Part 2 (engine E1): three-thread scenarios on the real TxPool with its real event loop, every
// schedule up to a preemption bound. Oracles: pool invariant at the end (against the final head) and
// at every observer return (against some head that was current), final content equal to that of SOME
// sequential order of the same operations, no deadlock, no leaked goroutine.

type cop struct {
	Kind string // addr | addl | price | head | observe
	Arg  string
}

type cscenario struct {
	Name    string
	Config  string
	Start   string  // initial head
	Preload []cop   // sequential operations before the threads start
	Threads [][]cop // one op list per thread
	Cold    bool    // threads start before the pool's event loop goroutine has run at all
}

func cscenarios() []cscenario {
	return []cscenario{
		{Name: "K1-replacement-races-head-advance", Config: "default", Start: "H0",
			Threads: [][]cop{{{"addr", "A0p100"}}, {{"addr", "A0p110"}}, {{"head", "H1"}}}},
		{Name: "K2-out-of-order-adds-with-observer", Config: "default", Start: "H0",
			Threads: [][]cop{{{"addr", "A1p100"}}, {{"addr", "A0p100"}}, {{"observe", ""}}}},
		{Name: "K3-slot-limits-and-price-change", Config: "tiny", Start: "H0",
			Threads: [][]cop{{{"addr", "B0p100"}, {"addr", "B1p100"}}, {{"addr", "A0p100"}}, {{"price", "105"}}}},
		{Name: "K4-reorg-reinject-races-replacement", Config: "default", Start: "H1", Preload: []cop{{"addr", "A2p100"}},
			Threads: [][]cop{{{"head", "H1x"}}, {{"addr", "A0p110"}}, {{"observe", ""}}}},
		{Name: "K5-balance-drop-races-expensive-add", Config: "default", Start: "H1",
			Threads: [][]cop{{{"head", "H2"}}, {{"addr", "A2big"}}, {{"addr", "A3p100"}}}},
		// cold start: the threads run before the pool event loop goroutine has executed at all (found the start-up defect fixed in 7b12067)
		{Name: "K6-head-change-before-event-loop-first-runs", Config: "default", Start: "H1", Preload: []cop{{"addr", "A2p100"}}, Cold: true,
			Threads: [][]cop{{{"head", "H1x"}}, {{"addr", "A0p110"}}}},
	}
}

func concBound(tier string) int {
	if tier == "thorough" {
		return 3
	}
	return 2
}

type cworld struct {
	w     *world
	c     *chain
	p     *core.TxPool
	cfg   core.TxPoolConfig
	heads []string // heads that have been current so far
	obs   []string // observer failures
}

func (cw *cworld) apply(op cop, viaLoop bool) {
	w := cw.w
	switch op.Kind {
	case "addr":
		cw.p.AddRemote(w.tx(op.Arg))
	case "addl":
		cw.p.AddLocal(w.tx(op.Arg))
	case "price":
		gp := new(big.Int).Mul(big.NewInt(gwei), big.NewInt(105))
		cw.p.SetGasPrice(gp)
	case "head":
		old := cw.c.CurrentBlock()
		nb := w.heads[op.Arg]
		cw.c.setHead(nb)
		cw.heads = append(cw.heads, op.Arg)
		if viaLoop {
			cw.c.feed.Send(core.ChainHeadEvent{Block: nb})
		} else {
			cw.p.VerifReset(old.Header(), nb.Header())
		}
	case "observe":
		// the pool may not have processed a head event yet: the invariant must hold against one of the
		// heads that have been current
		var best []string
		ok := false
		locals := cw.locals()
		content := snap(cw.p) // one atomic read; heads are read afterwards
		heads := append([]string(nil), cw.heads...)
		for _, hn := range heads {
			f := invariantS(w, &chain{w: w, head: w.heads[hn]}, cw.p, cw.cfg, locals, true, content)
			if len(f) == 0 {
				ok = true
				break
			}
			best = append(best, "vs "+hn+": "+strings.Join(f, "; "))
		}
		if !ok {
			cw.obs = append(cw.obs, "observer: "+strings.Join(best, "; "))
		}
	}
}

func (cw *cworld) locals() map[common.Address]bool {
	m := map[common.Address]bool{}
	if !cw.cfg.NoLocals {
		for _, a := range []common.Address{cw.w.A, cw.w.B} {
			m[a] = cw.p.VerifIsLocal(a)
		}
	}
	return m
}

func newCWorld(w *world, sc cscenario) *cworld {
	cfg := poolConfigs()[sc.Config]
	c := &chain{w: w, head: w.heads[sc.Start]}
	cw := &cworld{w: w, c: c, cfg: cfg, heads: []string{sc.Start}}
	cw.p = core.NewTxPool(cfg, w.env.Config, c)
	return cw
}

// sequentialOutcomes runs every interleaving of the threads' operations that preserves per-thread
// order, one operation at a time, and returns the set of final pool contents.
func sequentialOutcomes(w *world, sc cscenario) map[string]bool {
	out := map[string]bool{}
	var rec func(pos []int, order []cop)
	total := 0
	for _, t := range sc.Threads {
		total += len(t)
	}
	rec = func(pos []int, order []cop) {
		if len(order) == total {
			cw := newCWorld(w, sc)
			for _, op := range sc.Preload {
				cw.apply(op, false)
			}
			for _, op := range order {
				cw.apply(op, false)
			}
			out[snap(cw.p).String()] = true
			cw.p.Stop()
			return
		}
		for ti, t := range sc.Threads {
			if pos[ti] < len(t) {
				np := append([]int(nil), pos...)
				np[ti]++
				rec(np, append(append([]cop(nil), order...), t[pos[ti]]))
			}
		}
	}
	rec(make([]int, len(sc.Threads)), nil)
	return out
}

func toScenario(w *world, sc cscenario, admissible map[string]bool) vrt.Scenario {
	return vrt.Scenario{Name: sc.Name, Horizon: 6000, Adopt: true, Quiesce: true,
		Build: func(s *vrt.Sched) (func() ([]string, string), func()) {
			cw := newCWorld(w, sc) // the pool's loop goroutine is adopted as a daemon thread
			for _, op := range sc.Preload {
				cw.apply(op, false)
			}
			if !sc.Cold {
				s.Settle() // the event loop reaches its select: the pool is fully started
			}
			for ti, ops := range sc.Threads {
				ops := ops
				s.Spawn(fmt.Sprintf("T%d", ti), false, func() {
					for _, op := range ops {
						cw.apply(op, true)
					}
				})
			}
			verify := func() ([]string, string) {
				var fails []string
				fails = append(fails, cw.obs...)
				final := snap(cw.p).String()
				for _, f := range invariant(w, cw.c, cw.p, cw.cfg, cw.locals()) {
					fails = append(fails, "at quiescence: "+f)
				}
				if !admissible[final] {
					var adm []string
					for a := range admissible {
						adm = append(adm, a)
					}
					sort.Strings(adm)
					fails = append(fails, fmt.Sprintf("final pool content %s equals that of no sequential order of the same operations %v", final, adm))
				}
				return fails, final
			}
			cleanup := func() { cw.p.Stop() }
			return verify, cleanup
		}}
}

func concConfirm(scName string, choices []int, times int) bool {
	cb, _ := json.Marshal(choices)
	for i := 0; i < times; i++ {
		cmd := exec.Command(os.Args[0], "-test.run", "^TestCheck$", "-test.timeout", "0")
		cmd.Env = append(os.Environ(), "C15_CONC_REPLAY="+scName, "C15_CONC_CHOICES="+string(cb), "VERIF_SHARD=", "VERIF_REPLAY=")
		out, err := cmd.CombinedOutput()
		ee, ok := err.(*exec.ExitError)
		if !(ok && ee.ExitCode() == 1 && strings.Contains(string(out), "REPRODUCED")) {
			return false
		}
	}
	return true
}

func concReplayChild(t *testing.T) {
	name := os.Getenv("C15_CONC_REPLAY")
	var choices []int
	json.Unmarshal([]byte(os.Getenv("C15_CONC_CHOICES")), &choices)
	w := newWorld()
	for _, sc := range cscenarios() {
		if sc.Name != name {
			continue
		}
		adm := sequentialOutcomes(w, sc)
		rec := vrt.RunOnce(t, toScenario(w, sc, adm), choices, true, func(r *vrt.ExecRec) {
			fmt.Println("REPRODUCED", r.Kind, r.Fails)
			for _, l := range r.Trace {
				fmt.Println("   ", l)
			}
			os.Exit(1)
		})
		if len(rec.Fails) > 0 {
			fmt.Println("REPRODUCED", rec.Fails)
			os.Exit(1)
		}
		fmt.Println("NOT-REPRODUCED")
		os.Exit(0)
	}
	ev.Broken("unknown concurrent scenario %q", name)
}

func concReplay(t *testing.T, run *ev.Run, d *ev.ReplayDoc) {
	name, _ := d.Detail["scenario"].(string)
	var choices []int
	if a, ok := d.Detail["choices"].([]interface{}); ok {
		for _, x := range a {
			choices = append(choices, int(x.(float64)))
		}
	}
	if concConfirm(name, choices, 1) {
		run.Violate(ev.Violation{Scenario: d.Scenario, Oracle: d.Oracle, CaseID: d.CaseID, Detail: d.Detail})
	}
}

func concWorker(t *testing.T, shard, n int) {
	tier := os.Getenv("VERIF_TIER")
	w := newWorld()
	res := &ev.WorkerResult{Counters: map[string]int64{}}
	classes := map[string]bool{}
	deadline := time.Now().Add(6 * time.Minute)
	if tier == "thorough" {
		deadline = time.Now().Add(40 * time.Minute)
	}
	finish := func() {
		for c := range classes {
			res.Classes = append(res.Classes, c)
		}
		ev.WorkerDone(res)
	}
	for _, sc := range cscenarios() {
		adm := sequentialOutcomes(w, sc)
		vsc := toScenario(w, sc, adm)
		for b := 0; b <= concBound(tier); b++ {
			ex := &vrt.Explorer{T: t, Sc: vsc, Bound: b, Shard: shard, NShards: n, Deadline: deadline}
			ex.OnFail = func(f *vrt.Failure) {
				if !concConfirm(f.Scenario, f.Choices, 3) {
					ev.Broken("C15 %s: failing schedule %v does not reproduce: %v", f.Scenario, f.Choices, f.Msgs)
				}
				res.Violations = append(res.Violations, ev.Violation{Scenario: "concurrent", Oracle: f.Kind + "-" + oracleOf(f.Msgs[0]), CaseID: f.Scenario,
					Detail: map[string]interface{}{"scenario": f.Scenario, "choices": f.Choices, "msgs": f.Msgs, "bound": b}})
				finish()
			}
			r := ex.Run()
			res.Evals += r.Execs
			res.Counters[sc.Name+"|executions"] += r.Execs
			res.Counters[fmt.Sprintf("%s|executions_bound_%d", sc.Name, b)] += r.Execs
			if shard == 0 {
				res.Counters[sc.Name+"|sequential_reference_outcomes"] = int64(len(adm))
			}
			for o := range r.Outcomes {
				classes["conc|"+sc.Name+"|"+o] = true
			}
			if r.CapHit {
				res.Caps = append(res.Caps, sc.Name+": horizon hit")
			}
			if r.TimedOut {
				res.Caps = append(res.Caps, fmt.Sprintf("%s: internal deadline inside bound %d", sc.Name, b))
				break
			}
		}
	}
	finish()
}
