// C15 - the pool's pending transactions are always executable, in order and bounded.
// Part 1 (engine E2): every operation sequence up to a depth over a colliding alphabet on the real
// core.TxPool, invariant after every operation. Part 2 (engine E1) is in conc_test.go.
package c15

import (
	"encoding/json"
	"fmt"
	"math/big"
	"os"
	"path/filepath"
	"strings"
	"testing"
	"time"

	"gitlab.com/aquachain/aquachain/common"
	"gitlab.com/aquachain/aquachain/core"
	"gitlab.com/aquachain/aquachain/core/types"
	"gitlab.com/aquachain/aquachain/zzverif/chainkit"
	"gitlab.com/aquachain/aquachain/zzverif/ev"
)

// symbol of the sequential alphabet
type symbol struct {
	Kind string `json:"k"` // addr | addl | price | head
	Arg  string `json:"a"`
}

func alphabet(w *world) []symbol {
	var s []symbol
	for _, n := range w.names {
		s = append(s, symbol{"addr", n})
	}
	for _, n := range []string{"A0p100", "A2p100", "B0p100"} {
		s = append(s, symbol{"addl", n})
	}
	s = append(s, symbol{"price", "105"}, symbol{"price", "0"})
	for _, h := range []string{"H1", "H1x", "H2", "H0", "H2x"} {
		s = append(s, symbol{"head", h})
	}
	return s
}

func (w *world) tx(name string) *types.Transaction {
	for i, n := range w.names {
		if n == name {
			return w.txs[i]
		}
	}
	panic("no tx " + name)
}

type seqResult struct {
	fails []string
	trace string
}

// runSeq executes one operation sequence on a fresh pool.
func runSeq(w *world, cfgName string, cfg core.TxPoolConfig, start string, seq []symbol) seqResult {
	var r seqResult
	c := &chain{w: w, head: w.heads[start]}
	if cfgName == "journal" {
		dir, err := os.MkdirTemp(os.Getenv("VERIF_SCRATCH"), "c15journal")
		if err != nil {
			ev.Broken("journal dir: %v", err)
		}
		defer os.RemoveAll(dir)
		cfg.Journal = filepath.Join(dir, "transactions.rlp")
		cfg.Rejournal = time.Hour
	}
	p := core.NewTxPool(cfg, w.env.Config, c)
	defer func() { p.Stop() }()
	if cfgName == "small" {
		for _, n := range []string{"A0p100", "A1p100", "A2p100", "B0p100"} {
			p.AddRemote(w.tx(n))
		}
	}
	gasPrice := big.NewInt(1)
	signer := w.env.Signer
	for oi, sy := range seq {
		pre := snap(p)
		var err error
		switch sy.Kind {
		case "addr", "addl":
			tx := w.tx(sy.Arg)
			from, _ := types.Sender(signer, tx)
			old := pre.find(from, tx.Nonce())
			if sy.Kind == "addr" {
				err = p.AddRemote(tx)
			} else {
				err = p.AddLocal(tx)
			}
			post := snap(p)
			if err == nil && old != nil && old.Hash() != tx.Hash() {
				if !bumpOK(old, tx, cfg.PriceBump) {
					r.fails = append(r.fails, fmt.Sprintf("op %d %s: same-nonce replacement accepted without the price bump (old %v, new %v)", oi, sy.Arg, old.GasPrice(), tx.GasPrice()))
				}
				if post.has(old.Hash()) && post.has(tx.Hash()) {
					r.fails = append(r.fails, fmt.Sprintf("op %d %s: replacement accepted but the replaced transaction is still pooled", oi, sy.Arg))
				}
				// an accepted replacement is what the pool serves for that sender and nonce from now on
				if cur := post.find(from, tx.Nonce()); cur != nil && cur.Hash() == old.Hash() {
					r.fails = append(r.fails, fmt.Sprintf("op %d %s: replacement accepted but Content() still serves the replaced transaction (price %v) for nonce %d", oi, sy.Arg, old.GasPrice(), tx.Nonce()))
				}
			}
			if err != nil && old != nil && old.Hash() != tx.Hash() && bumpOK(old, tx, cfg.PriceBump) && strings.Contains(err.Error(), "replacement transaction underpriced") {
				r.fails = append(r.fails, fmt.Sprintf("op %d %s: replacement with a sufficient price bump refused as underpriced", oi, sy.Arg))
			}
		case "restart":
			// the node restarts: the pool is rebuilt on the same head from its journal of local transactions
			p.Stop()
			p = core.NewTxPool(cfg, w.env.Config, c)
			gasPrice = big.NewInt(1)
		case "price":
			gp := new(big.Int).Mul(big.NewInt(gwei), big.NewInt(105))
			if sy.Arg == "0" {
				gp = big.NewInt(1)
			}
			gasPrice = gp
			p.SetGasPrice(gp)
		case "head":
			old := c.CurrentBlock()
			nb := w.heads[sy.Arg]
			c.setHead(nb)
			p.VerifReset(old.Header(), nb.Header())
			if cfgName == "default" {
				r.fails = append(r.fails, reinjected(w, c, p, old, nb, gasPrice, oi)...)
			}
		}
		locals := map[common.Address]bool{}
		if !cfg.NoLocals {
			for _, a := range []common.Address{w.A, w.B} {
				locals[a] = p.VerifIsLocal(a)
			}
		}
		for _, f := range invariant(w, c, p, cfg, locals) {
			r.fails = append(r.fails, fmt.Sprintf("after op %d (%s %s): %s", oi, sy.Kind, sy.Arg, f))
		}
		e := "ok"
		if err != nil {
			e = "rej"
		}
		r.trace += fmt.Sprintf("%s%s:%s>%s ", sy.Kind[:1], sy.Arg, e, snap(p))
		if len(r.fails) > 0 {
			return r
		}
		if cfgName == "default" {
			if f, extended := orphanWitness(w, c, p, gasPrice, oi); extended {
				r.fails = append(r.fails, f...)
				r.trace += "witness-extension "
				return r
			}
		}
	}
	return r
}

// reinjected: after a head change that drops blocks, every transaction of the dropped blocks that is
// still valid at the new head is pooled again.
func reinjected(w *world, c *chain, p *core.TxPool, old, nb *types.Block, gasPrice *big.Int, oi int) []string {
	// walk both branches to the common ancestor
	dropped := map[common.Hash]*types.Transaction{}
	included := map[common.Hash]bool{}
	a, b := old, nb
	for a.Hash() != b.Hash() {
		if a.NumberU64() >= b.NumberU64() {
			for _, tx := range a.Transactions() {
				dropped[tx.Hash()] = tx
			}
			a = w.blocks[a.ParentHash()]
		} else {
			for _, tx := range b.Transactions() {
				included[tx.Hash()] = true
			}
			b = w.blocks[b.ParentHash()]
		}
	}
	st, _ := c.StateAt(nb.Root())
	s := snap(p)
	var fails []string
	for h, tx := range dropped {
		if included[h] {
			continue
		}
		from, _ := types.Sender(w.env.Signer, tx)
		if tx.Nonce() < st.GetNonce(from) || tx.Cost().Cmp(st.GetBalance(from)) > 0 || tx.GasPrice().Cmp(gasPrice) < 0 {
			continue
		}
		if cur := s.find(from, tx.Nonce()); cur != nil && cur.Hash() != h {
			continue // the slot is legitimately taken by another transaction
		}
		if !s.has(h) {
			fails = append(fails, fmt.Sprintf("op %d: transaction nonce %d of %s dropped out of the canonical chain, is still valid, but was not pooled again: %s", oi, tx.Nonce(), from.Hex()[:8], s))
		}
	}
	return fails
}

// orphanWitness: a transaction the pool still indexes (Get finds it) although it is neither pending nor
// queued is not by itself something C15 forbids. It is the precursor of something C15 does forbid, so
// the history is extended to the witness: a block that includes the transaction (with fillers for the
// nonces below it) becomes the head and is then dropped by a reorganisation to an empty sibling; the
// transaction, still valid there, must be pooled again. Returns extended=true when it changed heads.
func orphanWitness(w *world, c *chain, p *core.TxPool, gasPrice *big.Int, oi int) (fails []string, extended bool) {
	s := snap(p)
	for i, tx := range w.txs {
		h := tx.Hash()
		if p.Get(h) == nil || s.has(h) {
			continue
		}
		from, _ := types.Sender(w.env.Signer, tx)
		fi := 0
		if from == w.B {
			fi = 1
		}
		head := c.CurrentBlock()
		st, _ := c.StateAt(head.Root())
		cn := st.GetNonce(from)
		if tx.Nonce() < cn || tx.Nonce() > cn+3 || tx.Cost().Cmp(new(big.Int).Div(st.GetBalance(from), big.NewInt(4))) > 0 ||
			tx.Gas() > head.GasLimit()/2 || tx.GasPrice().Cmp(gasPrice) < 0 {
			continue // cannot be put into a block on this head / would not be valid for the pool afterwards
		}
		var blk, sib *types.Block
		func() {
			defer func() { recover() }()
			bs, _ := w.env.Gen(head, chainkit.Faker(), 1, func(_ int, g *core.BlockGen) {
				for n := cn; n < tx.Nonce(); n++ {
					f, err := types.SignTx(types.NewTransaction(n, w.env.Addrs[2], big.NewInt(1), 21000, big.NewInt(200*gwei), nil), w.env.Signer, w.env.Keys[fi])
					if err != nil {
						panic(err)
					}
					g.AddTx(f)
				}
				g.AddTx(tx)
			})
			ss, _ := w.env.Gen(head, chainkit.Faker(), 1, func(_ int, g *core.BlockGen) { g.SetExtra([]byte{0x77}) })
			blk, sib = bs[0], ss[0]
		}()
		if blk == nil || sib == nil {
			continue
		}
		if c.extra == nil {
			c.extra = map[common.Hash]*types.Block{}
		}
		c.extra[blk.Hash()], c.extra[sib.Hash()] = blk, sib
		c.setHead(blk)
		p.VerifReset(head.Header(), blk.Header())
		c.setHead(sib)
		p.VerifReset(blk.Header(), sib.Header())
		after := snap(p)
		if cur := after.find(from, tx.Nonce()); cur != nil && cur.Hash() != h {
			return nil, true // slot legitimately taken by another transaction
		}
		if !after.has(h) {
			fails = append(fails, fmt.Sprintf("after op %d transaction %s (nonce %d) stayed in the pool's index although it is neither pending nor queued; "+
				"witness: a block including it became the head and was dropped by a reorganisation to an empty sibling - the transaction is still valid but was not pooled again: %s", oi, w.names[i], tx.Nonce(), after))
		}
		return fails, true
	}
	return nil, false
}

func depth(tier string) int {
	if tier == "thorough" {
		return 4
	}
	return 3
}

func TestCheck(t *testing.T) {
	chainkit.Quiet()
	if os.Getenv("C15_CONC_REPLAY") != "" {
		concReplayChild(t)
		return
	}
	if d := ev.Replay(); d != nil {
		run := ev.Start("exploration")
		if d.Scenario == "concurrent" {
			concReplay(t, run, d)
			run.Finish()
		}
		var seq []symbol
		b, _ := json.Marshal(d.Detail["seq"])
		json.Unmarshal(b, &seq)
		cfgName, _ := d.Detail["config"].(string)
		start, _ := d.Detail["start"].(string)
		if start == "" {
			start = "H0"
		}
		w := newWorld()
		pc, ok := poolConfigs()[cfgName]
		if !ok { // "journal" is the default configuration plus a journal file
			pc = poolConfigs()["default"]
		}
		r := runSeq(w, cfgName, pc, start, seq)
		if len(r.fails) > 0 {
			fmt.Println("REPRODUCED", r.fails)
			run.Violate(ev.Violation{Scenario: d.Scenario, Oracle: d.Oracle, CaseID: d.CaseID, Detail: d.Detail})
		}
		run.Finish()
	}
	if shard, n, ok := ev.Shard(); ok {
		if os.Getenv("C15_PART") == "conc" {
			concWorker(t, shard, n)
			return
		}
		seqWorker(shard, n)
		return
	}
	run := ev.Start("exploration")
	run.Rule = "sequential part: one evaluation = one operation sequence (adds local/remote over a colliding pre-signed alphabet, gas-price changes, head changes incl. reorg and balance drop) on a fresh real TxPool with the invariant checked after every operation; concurrent part: one evaluation = one schedule of a 3-thread scenario; distinct_nontrivial = distinct (config, final pool content trace) / (scenario, outcome)"
	run.Assume("small scope: two senders, nonces 0..3, three price levels around the 10% bump, four scripted heads; sequences to the depth in bounds")
	run.Assume("head changes in the sequential part are delivered synchronously through the pool's own lockedReset (in-package accessor); the event-loop path is exercised by the concurrent part")
	run.Assume("'local sender' is what the pool itself records (in-package accessor VerifIsLocal)")
	run.RunWorkers(ev.Jobs(), []string{"C15_PART=seq"}, nil)
	res := run.RunWorkers(ev.Jobs(), []string{"C15_PART=conc"}, nil)
	per := map[string]int64{}
	for _, wres := range res {
		if wres != nil {
			for k, v := range wres.Counters {
				per[k] += v
			}
		}
	}
	run.Set("concurrent", per)
	run.Set("bounds", map[string]interface{}{"sequence_depth": depth(run.Tier), "alphabet": len(alphabet(newWorld())), "configs": []string{"default", "tiny", "nolocals"}, "initial_heads": []string{"H0", "H1"}, "preemption_bound": concBound(run.Tier)})
	run.Finish()
}

func seqWorker(shard, nsh int) {
	tier := os.Getenv("VERIF_TIER")
	w := newWorld()
	alpha := alphabet(w)
	d := depth(tier)
	res := &ev.WorkerResult{Counters: map[string]int64{}}
	classes := map[string]bool{}
	sigSeen := map[string]bool{}
	deadline := time.Now().Add(6 * time.Minute)
	if tier == "thorough" {
		deadline = time.Now().Add(40 * time.Minute)
	}
	cfgs := poolConfigs()
	capped := false
	count := 0
	enumerate := func(d int, starts, cns []string) {
		idx := make([]int, d)
		for {
			count++
			if count%nsh == shard {
				seq := make([]symbol, d)
				for i, k := range idx {
					seq[i] = alpha[k]
				}
				for _, start := range starts {
					for _, cn := range cns {
						r := runSeq(w, cn, cfgs[cn], start, seq)
						res.Evals++
						if len(r.fails) > 0 {
							oc := oracleOf(r.fails[0])
							sig := cn + "/" + oc
							if !sigSeen[sig] {
								sigSeen[sig] = true
								if r2 := runSeq(w, cn, cfgs[cn], start, seq); len(r2.fails) == 0 {
									ev.Broken("C15 verdict flipped on re-run: %v", r.fails)
								}
								res.Violations = append(res.Violations, ev.Violation{Scenario: "sequential", Oracle: oc, CaseID: cn,
									Detail: map[string]interface{}{"seq": seq, "config": cn, "start": start, "fails": r.fails, "trace": r.trace}})
							}
							continue
						}
						classes[hash64(cn+"|"+start+"|"+r.trace)] = true
						if len(res.Samples) < 2 && strings.Count(r.trace, ":ok") >= d-1 && strings.Contains(r.trace, "hH1x") {
							res.Samples = append(res.Samples, map[string]interface{}{"config": cn, "start": start, "trace": r.trace})
						}
					}
				}
				if count%512 == 0 && time.Now().After(deadline) {
					capped = true
					break
				}
			}
			// odometer
			i := d - 1
			for i >= 0 {
				idx[i]++
				if idx[i] < len(alpha) {
					break
				}
				idx[i] = 0
				i--
			}
			if i < 0 {
				break
			}
		}
	}
	enumerate(d, []string{"H0", "H1"}, []string{"default", "tiny", "nolocals"})
	enumerate(d, []string{"H0"}, []string{"small"})
	if tier == "thorough" && !capped {
		// one level deeper for the default configuration from the genesis head
		enumerate(d+1, []string{"H0"}, []string{"default"})
		res.Counters["sequence_depth_default_H0"] = int64(d + 1)
	}
	// journal family: a pool that journals its local transactions, with the node restarting in between
	jalpha := []symbol{{"addl", "A0p100"}, {"addl", "A0p110"}, {"addl", "A2p100"}, {"addl", "B0p100"}, {"addr", "A1p100"},
		{"head", "H1"}, {"head", "H1x"}, {"price", "105"}, {"restart", ""}}
	jd := d + 1
	jcfg := cfgs["default"]
	jidx := make([]int, jd)
	for jn := 0; !capped; jn++ {
		if jn%nsh == shard {
			seq := make([]symbol, jd)
			hasRestart := false
			for i, k := range jidx {
				seq[i] = jalpha[k]
				hasRestart = hasRestart || jalpha[k].Kind == "restart"
			}
			if hasRestart {
				r := runSeq(w, "journal", jcfg, "H0", seq)
				res.Evals++
				res.Counters["journal_sequences"]++
				if len(r.fails) > 0 {
					oc := oracleOf(r.fails[0])
					if !sigSeen["journal/"+oc] {
						sigSeen["journal/"+oc] = true
						if r2 := runSeq(w, "journal", jcfg, "H0", seq); len(r2.fails) == 0 {
							ev.Broken("C15 verdict flipped on re-run: %v", r.fails)
						}
						res.Violations = append(res.Violations, ev.Violation{Scenario: "sequential", Oracle: oc, CaseID: "journal",
							Detail: map[string]interface{}{"seq": seq, "config": "journal", "start": "H0", "fails": r.fails, "trace": r.trace}})
					}
				} else {
					classes[hash64("journal|"+r.trace)] = true
				}
			}
			if time.Now().After(deadline) {
				capped = true
			}
		}
		i := jd - 1
		for i >= 0 {
			jidx[i]++
			if jidx[i] < len(jalpha) {
				break
			}
			jidx[i] = 0
			i--
		}
		if i < 0 {
			break
		}
	}
	if capped {
		res.Caps = append(res.Caps, "sequential part: internal deadline reached")
	}
	for c := range classes {
		res.Classes = append(res.Classes, c)
	}
	ev.WorkerDone(res)
}

func oracleOf(msg string) string {
	for _, k := range []string{"gap-free", "costs more than", "more gas than", "virtual nonce", "two transactions for", "AccountQueue", "GlobalSlots", "GlobalQueue", "Stats()", "without the price bump", "still pooled", "refused as underpriced", "not pooled again", "deadlock", "panic", "sequential order", "still alive"} {
		if strings.Contains(msg, k) {
			return strings.ReplaceAll(strings.Trim(k, "()"), " ", "-")
		}
	}
	return "other"
}

func hash64(x string) string {
	var h uint64 = 14695981039346656037
	for i := 0; i < len(x); i++ {
		h = (h ^ uint64(x[i])) * 1099511628211
	}
	return fmt.Sprintf("%016x", h)
}
