// C19 - event feeds deliver every value exactly once to every live subscriber.
// Engine E1: every interleaving (at synchronisation-operation granularity) of small closed
// scenarios over the real aqua/event package, up to a deviation bound. DESIGN.md section 4/C19.
package c19

import (
	"encoding/json"
	"errors"
	"fmt"
	"os"
	"os/exec"
	"path/filepath"
	"reflect"
	"sort"
	"strings"
	"testing"
	"testing/synctest"
	"time"

	"gitlab.com/aquachain/aquachain/aqua/event"
	"gitlab.com/aquachain/aquachain/zzverif/ev"
	"gitlab.com/aquachain/aquachain/zzverif/vrt"
)

// ---- scenario scaffolding -----------------------------------------------------------------------

type subRec struct {
	name     string
	ch       chan int
	sub      event.Subscription
	got      []int // values taken off the channel by the reader thread
	subCall  int   // event index of Subscribe invocation / return (-1: never)
	subRet   int
	unsCall  int
	unsRet   int
	atUnsRet int // deliveries made when Unsubscribe returned (received + buffered)
}

type sendRec struct {
	val       int
	call, ret int
	nsent     int
}

type world struct {
	s     *vrt.Sched
	feed  *event.Feed
	subs  []*subRec
	sends []*sendRec
	clock int
	quit  chan struct{}
}

func newWorld(s *vrt.Sched) *world {
	return &world{s: s, feed: new(event.Feed), quit: make(chan struct{})}
}

func (w *world) tick() int { w.clock++; return w.clock }

func (w *world) newSub(name string, buf int) *subRec {
	r := &subRec{name: name, ch: make(chan int, buf), subCall: -1, subRet: -1, unsCall: -1, unsRet: -1, atUnsRet: -1}
	w.subs = append(w.subs, r)
	return r
}

func (w *world) subscribe(r *subRec) {
	r.subCall = w.tick()
	r.sub = w.feed.Subscribe(r.ch)
	r.subRet = w.tick()
}

func (w *world) unsubscribe(r *subRec, via event.Subscription) {
	w.unsubscribeBy(r, via.Unsubscribe)
}

// unsubscribeBy records the earliest invocation and the earliest return of any call that unsubscribes r.
func (w *world) unsubscribeBy(r *subRec, f func()) {
	c := w.tick()
	if r.unsCall < 0 {
		r.unsCall = c
	}
	f()
	t := w.tick()
	if r.unsRet < 0 {
		r.unsRet = t
		r.atUnsRet = len(r.got) + len(r.ch)
	}
}

func (w *world) send(val int) {
	sr := &sendRec{val: val, ret: -1}
	w.sends = append(w.sends, sr)
	sr.call = w.tick()
	sr.nsent = w.feed.Send(val)
	sr.ret = w.tick()
}

// reader is a daemon thread that takes values off r.ch until quit is closed.
func (w *world) reader(r *subRec, max int) {
	w.s.Spawn("reader-"+r.name, true, func() {
		cases := []reflect.SelectCase{
			{Dir: reflect.SelectRecv, Chan: reflect.ValueOf(r.ch)},
			{Dir: reflect.SelectRecv, Chan: reflect.ValueOf(w.quit)},
		}
		for max < 0 || len(r.got) < max {
			vrt.Point("h.reader")
			i, v, _ := reflect.Select(cases)
			if i == 1 {
				vrt.After("h.reader-quit")
				return
			}
			r.got = append(r.got, int(v.Int()))
			vrt.After("h.reader")
		}
	})
}

// delivered returns everything that was put on r's channel, in order.
func (r *subRec) delivered() []int {
	out := append([]int(nil), r.got...)
	n := len(r.ch)
	for i := 0; i < n; i++ {
		select {
		case v := <-r.ch:
			out = append(out, v)
		default:
		}
	}
	return out
}

// verify is the interval-order oracle of DESIGN.md C19.
func (w *world) verify() ([]string, string) {
	var fails []string
	deliv := map[*subRec][]int{}
	var outcome []string
	for _, r := range w.subs {
		d := r.delivered()
		deliv[r] = d
		outcome = append(outcome, fmt.Sprintf("%s=%v", r.name, d))
		// nothing after Unsubscribe returned
		if r.atUnsRet >= 0 && len(d) != r.atUnsRet {
			fails = append(fails, fmt.Sprintf("subscriber %s: %d values delivered when Unsubscribe returned but %d in the end (delivery after unsubscription)", r.name, r.atUnsRet, len(d)))
		}
	}
	for _, sr := range w.sends {
		if sr.ret < 0 {
			continue // a send that never returned is a deadlock, reported by the scheduler
		}
		made := 0
		for _, r := range w.subs {
			cnt := 0
			for _, v := range deliv[r] {
				if v == sr.val {
					cnt++
				}
			}
			made += cnt
			must := r.subRet >= 0 && r.subRet < sr.call && (r.unsCall < 0 || r.unsCall > sr.ret)
			never := (r.unsRet >= 0 && r.unsRet < sr.call) || r.subCall < 0 || r.subCall > sr.ret
			switch {
			case cnt > 1:
				fails = append(fails, fmt.Sprintf("value %d delivered %d times to %s (duplicate)", sr.val, cnt, r.name))
			case must && cnt != 1:
				fails = append(fails, fmt.Sprintf("value %d lost for %s: subscribed before the send began and not unsubscribed before it returned", sr.val, r.name))
			case never && cnt != 0:
				fails = append(fails, fmt.Sprintf("value %d delivered to %s which was not subscribed during the send", sr.val, r.name))
			}
		}
		if made != sr.nsent {
			fails = append(fails, fmt.Sprintf("Send(%d) reported %d deliveries but made %d", sr.val, sr.nsent, made))
		}
		outcome = append(outcome, fmt.Sprintf("n%d=%d", sr.val, sr.nsent))
	}
	// one common order
	for i, a := range w.subs {
		for _, b := range w.subs[i+1:] {
			pa := map[int]int{}
			for k, v := range deliv[a] {
				pa[v] = k
			}
			last := -1
			for _, v := range deliv[b] {
				if k, ok := pa[v]; ok {
					if k < last {
						fails = append(fails, fmt.Sprintf("subscribers %s and %s observed sends in different orders: %v vs %v", a.name, b.name, deliv[a], deliv[b]))
						break
					}
					last = k
				}
			}
		}
	}
	return fails, strings.Join(outcome, " ")
}

func (w *world) cleanup() {
	close(w.quit)
	// let any Send that is still blocked on a subscriber nobody reads finish
	stop := make(chan struct{})
	for _, r := range w.subs {
		r := r
		go func() {
			for {
				select {
				case <-r.ch:
				case <-stop:
					return
				}
			}
		}()
	}
	synctest.Wait()
	close(stop)
}

var errProducer = errors.New("producer failed")

// ---- scenarios ----------------------------------------------------------------------------------

func scenarios() []vrt.Scenario {
	mk := func(name string, build func(w *world)) vrt.Scenario {
		return vrt.Scenario{Name: name, Horizon: 3000, Build: func(s *vrt.Sched) (func() ([]string, string), func()) {
			w := newWorld(s)
			build(w)
			return w.verify, w.cleanup
		}}
	}
	return append(muxScenarios(), []vrt.Scenario{
		mk("S1-one-send-two-subs", func(w *world) {
			a, b := w.newSub("A", 0), w.newSub("B", 1)
			w.subscribe(a)
			w.subscribe(b)
			w.reader(a, -1)
			w.s.Spawn("sender", false, func() { w.send(1) })
		}),
		mk("S2-two-senders-common-order", func(w *world) {
			a, b := w.newSub("A", 0), w.newSub("B", 2)
			w.subscribe(a)
			w.subscribe(b)
			w.reader(a, -1)
			w.s.Spawn("sender1", false, func() { w.send(1) })
			w.s.Spawn("sender2", false, func() { w.send(2) })
		}),
		mk("S3-unsubscribe-while-send-blocked-on-it", func(w *world) {
			a, b := w.newSub("A", 0), w.newSub("B", 0)
			w.subscribe(a)
			w.subscribe(b)
			w.reader(b, -1)
			w.s.Spawn("sender", false, func() { w.send(1) })
			w.s.Spawn("unsubA", false, func() { w.unsubscribe(a, a.sub) })
		}),
		mk("S4-subscribe-races-send", func(w *world) {
			a, b := w.newSub("A", 1), w.newSub("B", 1)
			w.subscribe(a)
			w.s.Spawn("sender", false, func() { w.send(1) })
			w.s.Spawn("subscriberB", false, func() { w.subscribe(b) })
		}),
		mk("S5-scope-close-races-send-and-unsubscribe", func(w *world) {
			a, b := w.newSub("A", 0), w.newSub("B", 1)
			var scope event.SubscriptionScope
			w.subscribe(a)
			w.subscribe(b)
			tracked := scope.Track(a.sub)
			w.s.Spawn("sender", false, func() { w.send(1) })
			w.s.Spawn("closer", false, func() { w.unsubscribeBy(a, scope.Close) })
			w.s.Spawn("unsubA", false, func() { w.unsubscribe(a, tracked) })
		}),
		mk("S10-scope-close-races-unsubscribe-then-send-buffered", func(w *world) {
			// like S5 but the tracked subscriber is buffered, so a Send that starts after the tracked
			// Unsubscribe returned would visibly deliver if the subscription were still live
			a, b := w.newSub("A", 1), w.newSub("B", 1)
			var scope event.SubscriptionScope
			w.subscribe(a)
			w.subscribe(b)
			tracked := scope.Track(a.sub)
			w.s.Spawn("closer", false, func() { w.unsubscribeBy(a, scope.Close) })
			w.s.Spawn("unsubA-then-send", false, func() {
				w.unsubscribe(a, tracked)
				w.send(1)
			})
		}),
		mk("S12-two-unsubscribers-of-one-subscription-then-send", func(w *world) {
			// the same subscription is unsubscribed from two threads at once (Unsubscribe may be called
			// repeatedly and from anywhere); whichever call returns first, a Send that begins after that
			// return must not reach the buffered subscriber. One value is sent first so that the
			// subscription has left the feed's inbox.
			a, b := w.newSub("A", 2), w.newSub("B", 2)
			w.subscribe(a)
			w.subscribe(b)
			w.send(1)
			w.s.Spawn("unsubA1", false, func() { w.unsubscribe(a, a.sub) })
			w.s.Spawn("unsubA2-then-send", false, func() {
				w.unsubscribe(a, a.sub)
				w.send(2)
			})
		}),
		mk("S13-two-unsubscribers-of-one-fresh-subscription-then-send", func(w *world) {
			// as S12 with the subscription still in the inbox
			a := w.newSub("A", 1)
			w.subscribe(a)
			w.s.Spawn("unsubA1", false, func() { w.unsubscribe(a, a.sub) })
			w.s.Spawn("unsubA2-then-send", false, func() {
				w.unsubscribe(a, a.sub)
				w.send(1)
			})
		}),
		mk("S14-producer-subscription-fails-then-unsubscribe", func(w *world) {
			// a subscription built with NewSubscription whose producer fails while nobody reads Err():
			// Unsubscribe (directly and through a scope) must still return; a feed send runs alongside
			a := w.newSub("A", 1)
			w.subscribe(a)
			w.s.Spawn("owner", false, func() {
				var scope event.SubscriptionScope
				sub := event.NewSubscription(func(quit <-chan struct{}) error { return errProducer })
				tracked := scope.Track(sub)
				sub2 := event.NewSubscription(func(quit <-chan struct{}) error { return errProducer })
				w.send(1)
				sub2.Unsubscribe()
				scope.Close()
				tracked.Unsubscribe()
			})
		}),
		mk("S6-self-unsubscribe-after-first-value", func(w *world) {
			a, b := w.newSub("A", 0), w.newSub("B", 2)
			w.subscribe(a)
			w.subscribe(b)
			w.s.Spawn("sender", false, func() { w.send(1); w.send(2) })
			w.s.Spawn("selfunsubA", false, func() {
				vrt.Point("h.recv")
				v := <-a.ch
				a.got = append(a.got, v)
				vrt.After("h.recv")
				w.unsubscribe(a, a.sub)
			})
		}),
		mk("S7-two-unsubscribers-one-blocked-send", func(w *world) {
			a, b, c := w.newSub("A", 0), w.newSub("B", 0), w.newSub("C", 1)
			w.subscribe(a)
			w.subscribe(b)
			w.subscribe(c)
			w.s.Spawn("sender", false, func() { w.send(1) })
			w.s.Spawn("unsubA", false, func() { w.unsubscribe(a, a.sub) })
			w.s.Spawn("unsubB", false, func() { w.unsubscribe(b, b.sub) })
		}),
		mk("S8-loop-receiver-with-err-channel", func(w *world) {
			a, b := w.newSub("A", 0), w.newSub("B", 2)
			w.subscribe(a)
			w.subscribe(b)
			// the shape used by the tx pool / miner loops: select on the data and on sub.Err()
			w.s.Spawn("loopA", false, func() {
				cases := []reflect.SelectCase{
					{Dir: reflect.SelectRecv, Chan: reflect.ValueOf(a.ch)},
					{Dir: reflect.SelectRecv, Chan: reflect.ValueOf(a.sub.Err())},
				}
				for {
					vrt.Point("h.loop")
					i, v, _ := vrt.Select(cases)
					if i == 1 {
						vrt.After("h.loop-err")
						return
					}
					a.got = append(a.got, int(v.Int()))
					vrt.After("h.loop")
				}
			})
			w.s.Spawn("sender", false, func() { w.send(1); w.send(2) })
			w.s.Spawn("stopper", false, func() { w.unsubscribe(a, a.sub) })
		}),
		mk("S11-served-subscriber-unsubscribes-while-send-blocked-on-others", func(w *world) {
			// A is buffered and is served at once; the Send then waits for B and C; A leaves meanwhile
			a, b, c := w.newSub("A", 1), w.newSub("B", 0), w.newSub("C", 0)
			w.subscribe(a)
			w.subscribe(b)
			w.subscribe(c)
			w.s.Spawn("sender", false, func() { w.send(1) })
			w.s.Spawn("unsubA", false, func() { w.unsubscribe(a, a.sub) })
			w.reader(b, -1)
			w.reader(c, -1)
		}),
		mk("S9-unsubscribe-buffered-during-two-sends", func(w *world) {
			a, b := w.newSub("A", 2), w.newSub("B", 2)
			w.subscribe(a)
			w.subscribe(b)
			w.s.Spawn("sender", false, func() { w.send(1); w.send(2) })
			w.s.Spawn("churnA", false, func() { w.unsubscribe(a, a.sub) })
		}),
	}...)
}

// ---- driver -------------------------------------------------------------------------------------

func bounds(tier, name string) []int {
	if tier == "thorough" {
		switch {
		case strings.HasPrefix(name, "S1"), strings.HasPrefix(name, "S4"):
			return []int{0, 1, 2, 3, 4, 5}
		}
		return []int{0, 1, 2, 3}
	}
	return []int{0, 1, 2}
}

type failDoc struct {
	Scenario string   `json:"scenario"`
	Choices  []int    `json:"choices"`
	Msgs     []string `json:"msgs"`
	Trace    []string `json:"trace"`
	Kind     string   `json:"kind"`
}

func findScenario(name string) (vrt.Scenario, bool) {
	for _, sc := range scenarios() {
		if sc.Name == name {
			return sc, true
		}
	}
	return vrt.Scenario{}, false
}

// replayOne re-executes one recorded schedule in this process and exits 1 if it still fails.
func replayOne(t *testing.T, scName string, choices []int) {
	sc, ok := findScenario(scName)
	if !ok {
		ev.Broken("unknown scenario %q", scName)
	}
	rec := vrt.RunOnce(t, sc, choices, true, func(r *vrt.ExecRec) {
		fmt.Printf("REPRODUCED %s kind=%s %v\n", scName, r.Kind, r.Fails)
		for _, l := range r.Trace {
			fmt.Println("  ", l)
		}
		os.Exit(1)
	})
	if len(rec.Fails) > 0 {
		fmt.Printf("REPRODUCED %s %v\n", scName, rec.Fails)
		os.Exit(1)
	}
	fmt.Println("NOT-REPRODUCED")
	os.Exit(0)
}

func intsOf(v interface{}) []int {
	var out []int
	if a, ok := v.([]interface{}); ok {
		for _, x := range a {
			if f, ok := x.(float64); ok {
				out = append(out, int(f))
			}
		}
	}
	return out
}

func TestCheck(t *testing.T) {
	if os.Getenv("C19_REPLAY_SCENARIO") != "" {
		var ch []int
		json.Unmarshal([]byte(os.Getenv("C19_REPLAY_CHOICES")), &ch)
		replayOne(t, os.Getenv("C19_REPLAY_SCENARIO"), ch)
	}
	if d := ev.Replay(); d != nil {
		run := ev.Start("exploration")
		sc, _ := d.Detail["scenario"].(string)
		choices := intsOf(d.Detail["choices"])
		if confirm(sc, choices, 1) {
			run.Violate(ev.Violation{Scenario: d.Scenario, Oracle: d.Oracle, CaseID: d.CaseID, Detail: d.Detail})
		}
		run.Finish()
	}
	if shard, n, ok := ev.Shard(); ok {
		worker(t, shard, n)
		return
	}
	run := ev.Start("exploration")
	run.Rule = "one evaluation = one complete execution of a closed scenario under the controlled scheduler (one schedule / choice sequence); distinct_nontrivial = distinct (scenario, observable outcome: per-subscriber delivery sequences and Send results) pairs"
	run.Assume("scheduling points at every mutex, once, channel, select, reflect.Select/TrySend operation of aqua/event (instrumented copy of the current sources); data races below that granularity are outside this engine")
	run.Assume("small scope: <= 2 sends, <= 3 subscribers, <= 4 threads; deviation bound (preemptions + select tie rotations) as reported in bounds")
	run.Assume("runtime tie-breaking of reflect.Select is replaced by an enumerated rotation; replay determinism is re-checked on every 97th execution")
	results := run.RunWorkers(ev.Jobs(), nil, nil)
	per := map[string]map[string]int64{}
	for _, wr := range results {
		if wr == nil {
			continue
		}
		for k, v := range wr.Counters {
			parts := strings.SplitN(k, "|", 2)
			if len(parts) == 2 {
				if per[parts[0]] == nil {
					per[parts[0]] = map[string]int64{}
				}
				if strings.HasPrefix(parts[1], "max_") {
					if v > per[parts[0]][parts[1]] {
						per[parts[0]][parts[1]] = v
					}
				} else {
					per[parts[0]][parts[1]] += v
				}
			}
		}
	}
	run.Set("per_scenario", per)
	bs := map[string][]int{}
	for _, sc := range scenarios() {
		bs[sc.Name] = bounds(run.Tier, sc.Name)
	}
	run.Set("bounds", bs)
	run.Finish()
}

// confirm re-runs a failing schedule in fresh processes; every run must fail.
func confirm(scName string, choices []int, times int) bool {
	cb, _ := json.Marshal(choices)
	okAll := true
	for i := 0; i < times; i++ {
		cmd := exec.Command(os.Args[0], "-test.run", "^TestCheck$", "-test.timeout", "0")
		cmd.Env = append(os.Environ(), "C19_REPLAY_SCENARIO="+scName, "C19_REPLAY_CHOICES="+string(cb), "VERIF_SHARD=", "VERIF_REPLAY=")
		out, err := cmd.CombinedOutput()
		if ee, ok := err.(*exec.ExitError); !(ok && ee.ExitCode() == 1 && strings.Contains(string(out), "REPRODUCED")) || strings.Contains(string(out), "NOT-REPRODUCED") {
			okAll = false
		}
	}
	return okAll
}

func worker(t *testing.T, shard, n int) {
	tier := os.Getenv("VERIF_TIER")
	res := &ev.WorkerResult{Counters: map[string]int64{}}
	deadline := time.Now().Add(6 * time.Minute)
	if tier == "thorough" {
		deadline = time.Now().Add(40 * time.Minute)
	}
	classes := map[string]bool{}
	for _, sc := range scenarios() {
		failed := false
		for _, b := range bounds(tier, sc.Name) {
			ex := &vrt.Explorer{T: t, Sc: sc, Bound: b, Shard: shard, NShards: n, Deadline: deadline}
			ex.OnFail = func(f *vrt.Failure) {
				// confirm in fresh processes before believing it
				if !confirm(f.Scenario, f.Choices, 5) {
					ev.Broken("scenario %s: failing schedule %v does not reproduce every time: %v", f.Scenario, f.Choices, f.Msgs)
				}
				msg := f.Msgs[0]
				res.Violations = append(res.Violations, ev.Violation{
					Scenario: f.Scenario, Oracle: f.Kind, CaseID: oracleClass(msg),
					Detail: map[string]interface{}{"scenario": f.Scenario, "choices": f.Choices, "msgs": f.Msgs, "bound": b},
				})
				failed = true
				finishWorker(res, classes)
			}
			r := ex.Run()
			res.Evals += r.Execs
			res.Counters[sc.Name+"|executions"] += r.Execs
			res.Counters[sc.Name+fmt.Sprintf("|executions_bound_%d", b)] += r.Execs
			res.Counters[sc.Name+"|determinism_replays"] += r.Replayed
			if int64(r.MaxPoints) > res.Counters[sc.Name+"|max_choice_points"] {
				res.Counters[sc.Name+"|max_choice_points"] = int64(r.MaxPoints)
			}
			if int64(r.MaxSteps) > res.Counters[sc.Name+"|max_steps"] {
				res.Counters[sc.Name+"|max_steps"] = int64(r.MaxSteps)
			}
			for o := range r.Outcomes {
				classes[sc.Name+": "+o] = true
			}
			if r.CapHit {
				res.Caps = append(res.Caps, sc.Name+": horizon hit")
			}
			if r.TimedOut {
				res.Caps = append(res.Caps, fmt.Sprintf("%s: internal deadline reached inside bound %d (lower bounds complete)", sc.Name, b))
				break
			}
			if shard == 0 && b == 0 {
				res.Samples = append(res.Samples, map[string]interface{}{"scenario": sc.Name, "bound": b, "outcomes": keys(r.Outcomes)})
			}
		}
		if failed {
			break
		}
	}
	finishWorker(res, classes)
}

func keys(m map[string]int64) []string {
	var k []string
	for x := range m {
		k = append(k, x)
	}
	sort.Strings(k)
	if len(k) > 4 {
		k = k[:4]
	}
	return k
}

func finishWorker(res *ev.WorkerResult, classes map[string]bool) {
	for c := range classes {
		res.Classes = append(res.Classes, c)
	}
	ev.WorkerDone(res)
}

// oracleClass normalises a failure message into a stable case id (no schedule-dependent numbers).
func oracleClass(msg string) string {
	for _, k := range []string{"duplicate", "lost", "not subscribed during", "delivery after unsubscription", "reported", "different orders", "deadlock", "panic", "still alive"} {
		if strings.Contains(msg, k) {
			return strings.ReplaceAll(k, " ", "-")
		}
	}
	return "other"
}

var _ = filepath.Join
