package c19

// TypeMux scenarios (aqua/event/event.go, the older of the two delivery mechanisms of the package).
// The delivery clauses of C19 are applied to it: a posted event reaches exactly once every subscriber
// of its type that subscribed before the Post began and did not unsubscribe before it returned, never
// a subscriber that had unsubscribed before it began, and no interleaving deadlocks. The common-order
// clause is not applied: the statement speaks of event feeds, and TypeMux delivers concurrent Posts
// through independent unbuffered hand-offs by design.

import (
	"fmt"
	"reflect"
	"strings"

	"gitlab.com/aquachain/aquachain/aqua/event"
	"gitlab.com/aquachain/aquachain/zzverif/vrt"
)

type mev int

type muxSub struct {
	name            string
	sub             *event.TypeMuxSubscription
	got             []int
	subCall, subRet int
	unsCall, unsRet int
}

type postRec struct {
	val       int
	call, ret int
	err       error
}

type muxWorld struct {
	s     *vrt.Sched
	mux   *event.TypeMux
	subs  []*muxSub
	posts []*postRec
	clock int
	quit  chan struct{}
}

func (w *muxWorld) tick() int { w.clock++; return w.clock }

func (w *muxWorld) subscribe(name string) *muxSub {
	r := &muxSub{name: name, unsCall: -1, unsRet: -1}
	w.subs = append(w.subs, r)
	r.subCall = w.tick()
	r.sub = w.mux.Subscribe(mev(0))
	r.subRet = w.tick()
	return r
}

func (w *muxWorld) unsubscribe(r *muxSub) {
	c := w.tick()
	if r.unsCall < 0 {
		r.unsCall = c
	}
	r.sub.Unsubscribe()
	t := w.tick()
	if r.unsRet < 0 {
		r.unsRet = t
	}
}

func (w *muxWorld) stop() {
	c := w.tick()
	for _, r := range w.subs {
		if r.unsCall < 0 {
			r.unsCall = c
		}
	}
	w.mux.Stop()
	t := w.tick()
	for _, r := range w.subs {
		if r.unsRet < 0 {
			r.unsRet = t
		}
	}
}

func (w *muxWorld) post(val int) {
	p := &postRec{val: val, ret: -1}
	w.posts = append(w.posts, p)
	p.call = w.tick()
	p.err = w.mux.Post(mev(val))
	p.ret = w.tick()
}

// readers is one daemon thread that serves the given subscriptions: it takes events off whichever
// channel has one (ties enumerated by the scheduler) until the channels are closed or the scenario ends.
func (w *muxWorld) readers(rs ...*muxSub) {
	w.s.Spawn("readers", true, func() {
		live := append([]*muxSub(nil), rs...)
		for {
			cases := []reflect.SelectCase{{Dir: reflect.SelectRecv, Chan: reflect.ValueOf(w.quit)}}
			for _, r := range live {
				cases = append(cases, reflect.SelectCase{Dir: reflect.SelectRecv, Chan: reflect.ValueOf(r.sub.Chan())})
			}
			vrt.Point("h.muxreaders")
			i, v, ok := vrt.Select(cases)
			if i == 0 {
				vrt.After("h.muxreaders-end")
				return
			}
			r := live[i-1]
			if !ok {
				live = append(live[:i-1:i-1], live[i:]...)
			} else {
				r.got = append(r.got, int(v.Interface().(*event.TypeMuxEvent).Data.(mev)))
			}
			vrt.After("h.muxreaders")
		}
	})
}

func (w *muxWorld) verify() ([]string, string) {
	var fails []string
	var outcome []string
	for _, r := range w.subs {
		outcome = append(outcome, fmt.Sprintf("%s=%v", r.name, r.got))
	}
	for _, p := range w.posts {
		if p.ret < 0 {
			continue // reported as deadlock by the scheduler
		}
		for _, r := range w.subs {
			cnt := 0
			for _, v := range r.got {
				if v == p.val {
					cnt++
				}
			}
			must := p.err == nil && r.subRet < p.call && (r.unsCall < 0 || r.unsCall > p.ret)
			never := (r.unsRet >= 0 && r.unsRet < p.call) || r.subCall > p.ret
			switch {
			case cnt > 1:
				fails = append(fails, fmt.Sprintf("event %d delivered %d times to %s (duplicate)", p.val, cnt, r.name))
			case must && cnt != 1:
				fails = append(fails, fmt.Sprintf("event %d lost for %s: subscribed before the Post began and not unsubscribed before it returned", p.val, r.name))
			case never && cnt != 0:
				fails = append(fails, fmt.Sprintf("event %d delivered to %s which was not subscribed during the Post", p.val, r.name))
			}
		}
		outcome = append(outcome, fmt.Sprintf("p%d=%v", p.val, p.err == nil))
	}
	return fails, strings.Join(outcome, " ")
}

func (w *muxWorld) cleanup() {
	close(w.quit)
	w.mux.Stop()
}

func muxScenarios() []vrt.Scenario {
	mk := func(name string, build func(w *muxWorld)) vrt.Scenario {
		return vrt.Scenario{Name: name, Horizon: 3000, Build: func(s *vrt.Sched) (func() ([]string, string), func()) {
			w := &muxWorld{s: s, mux: new(event.TypeMux), quit: make(chan struct{})}
			build(w)
			return w.verify, w.cleanup
		}}
	}
	return []vrt.Scenario{
		mk("M1-mux-unsubscribe-of-a-later-subscriber-during-post", func(w *muxWorld) {
			a, b, c := w.subscribe("A"), w.subscribe("B"), w.subscribe("C")
			w.s.Spawn("poster", false, func() { w.post(1) })
			w.s.Spawn("unsubB", false, func() { w.unsubscribe(b) })
			w.readers(a, b, c)
		}),
		mk("M2-mux-unsubscribe-of-the-subscriber-the-post-is-blocked-on", func(w *muxWorld) {
			a, b, c := w.subscribe("A"), w.subscribe("B"), w.subscribe("C")
			w.s.Spawn("poster", false, func() { w.post(1) })
			w.s.Spawn("unsubA", false, func() { w.unsubscribe(a) })
			w.readers(b, c)
		}),
		mk("M3-mux-posts-and-stop", func(w *muxWorld) {
			a, b := w.subscribe("A"), w.subscribe("B")
			w.s.Spawn("poster", false, func() { w.post(1); w.post(2) })
			w.s.Spawn("stopper", false, func() { w.stop() })
			w.readers(a, b)
		}),
		mk("M4-mux-subscribe-and-unsubscribe-race-post", func(w *muxWorld) {
			a := w.subscribe("A")
			w.s.Spawn("poster", false, func() { w.post(1); w.post(2) })
			d := &muxSub{name: "D", unsCall: -1, unsRet: -1, subCall: 1 << 30, subRet: 1 << 30}
			w.subs = append(w.subs, d)
			w.s.Spawn("churn", false, func() {
				d.subCall = w.tick()
				d.sub = w.mux.Subscribe(mev(0))
				d.subRet = w.tick()
				w.readers(d)
				w.unsubscribe(a)
			})
			w.readers(a)
		}),
	}
}
