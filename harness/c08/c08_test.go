// C08 - EVM instructions compute what the specification defines.
// Engine E4: boundary-lattice operand tuples, small-program enumeration and per-height opcode sets,
// executed on the real core/vm through vm.EVM.Call with a step tracer and compared, step by step and on
// the outcome, with the reference interpreter zzverif/ref/refevm. DESIGN.md section 4/C08.
package c08

import (
	"encoding/hex"
	"fmt"
	"hash/fnv"
	"os"
	"sort"
	"strconv"
	"strings"
	"sync"
	"sync/atomic"
	"testing"
	"time"

	"gitlab.com/aquachain/aquachain/common/log"
	"gitlab.com/aquachain/aquachain/zzverif/ev"
	"gitlab.com/aquachain/aquachain/zzverif/evmkit"
	"gitlab.com/aquachain/aquachain/zzverif/ref/refevm"
)

var gcBallast []byte

// ---- class bookkeeping (striped to keep 16 workers off one mutex) -----------------------------------------

type classSet struct {
	sh [64]struct {
		sync.Mutex
		m map[string]struct{}
	}
}

func newClassSet() *classSet {
	c := &classSet{}
	for i := range c.sh {
		c.sh[i].m = map[string]struct{}{}
	}
	return c
}
func (c *classSet) add(k string) {
	h := fnv.New32a()
	h.Write([]byte(k))
	s := &c.sh[h.Sum32()%64]
	s.Lock()
	s.m[k] = struct{}{}
	s.Unlock()
}
func (c *classSet) keys() []string {
	var out []string
	for i := range c.sh {
		for k := range c.sh[i].m {
			out = append(out, k)
		}
	}
	sort.Strings(out)
	return out
}

type checker struct {
	run      *ev.Run
	classes  *classSet
	deadline time.Time
	capped   sync.Once
	done     atomic.Bool
	famCnt   sync.Map // family -> *atomic.Int64
}

func (k *checker) count(fam string, n int64) {
	c, ok := k.famCnt.Load(fam)
	if !ok {
		c, _ = k.famCnt.LoadOrStore(fam, new(atomic.Int64))
	}
	c.(*atomic.Int64).Add(n)
}

func (k *checker) famCounts() map[string]int64 {
	out := map[string]int64{}
	k.famCnt.Range(func(key, v interface{}) bool { out[key.(string)] = v.(*atomic.Int64).Load(); return true })
	return out
}

// expired is sticky: once the deadline has passed every caller stops.
func (k *checker) expired() bool {
	if k.done.Load() {
		return true
	}
	if time.Now().After(k.deadline) {
		k.done.Store(true)
		k.capped.Do(func() { k.run.Cap("internal deadline reached before the enumeration was complete") })
		return true
	}
	return false
}

// stop is the cheap per-item form: reads the sticky flag always, the clock every 64th item.
func (k *checker) stop(i int) bool { return k.done.Load() || (i%64 == 0 && k.expired()) }

// classOf: distinct (family, set of executed opcodes, outcome, halt reason, class of the returned word).
func classOf(c Case, ref *refevm.Result, impl *implOut) (string, bool) {
	if impl.nsteps == 0 {
		return "", false
	}
	set := impl.opset
	retc := "-"
	if len(ref.Ret) == 32 {
		retc = cls(newBig(ref.Ret))
	} else if len(ref.Ret) > 0 {
		retc = fmt.Sprintf("len%d", len(ref.Ret))
	}
	return fmt.Sprintf("%s|%x|%s|%s|%s", c.Family, strings.TrimRight(hex.EncodeToString(set[:]), "0"), ref.Status, ref.Why, retc), true
}

// evaluate runs one case (plus, when asked, the exact-gas and one-less-gas variants) and reports.
func (k *checker) evaluate(c Case, gasBoundary, warm bool) {
	mm, ref, impl := compare(c, warm)
	k.run.Eval(1)
	n := int64(1)
	if cl, ok := classOf(c, ref, impl); ok {
		k.classes.add(cl)
	}
	if mm != nil {
		k.report(c, mm, warm)
	} else if gasBoundary && ref.Status != refevm.Failed {
		used := c.Gas - ref.GasLeft
		for _, g := range []uint64{used, used - 1} {
			if used == 0 && g != 0 {
				continue
			}
			c2 := c
			c2.Gas = g
			mm2, ref2, impl2 := compare(c2, warm)
			k.run.Eval(1)
			n++
			if cl, ok := classOf(c2, ref2, impl2); ok {
				k.classes.add(cl + "|gas-boundary")
			}
			if mm2 != nil {
				k.report(c2, mm2, warm)
			}
		}
	}
	k.count(c.Family, n)
}

func (k *checker) report(c Case, mm *Mismatch, warm bool) {
	// determinism: the verdict must be the same on every re-evaluation, each on a brand-new EVM (which is
	// also what a replay does)
	for i := 0; i < 3; i++ {
		again, _, _ := compare(c, false)
		if again == nil || again.Oracle != mm.Oracle || again.CaseID() != mm.CaseID() {
			if warm {
				ev.Broken("C08: mismatch (%s %s) for code %x (gas %d, %s) appears on an EVM reused across calls but not on a fresh one: interpreter state leaks between calls; not replayable from the case alone", mm.Oracle, mm.CaseID(), c.Code, c.Gas, c.Ep.Name)
			}
			ev.Broken("C08: verdict for code %x (gas %d, %s) is not deterministic", c.Code, c.Gas, c.Ep.Name)
		}
	}
	k.run.Violate(ev.Violation{Scenario: c.Family, Oracle: mm.Oracle, CaseID: mm.CaseID(), Detail: c.detail(mm)})
}

func (k *checker) runCases(cases []Case, gasBoundary bool) {
	ev.ParallelFor(len(cases), func(i int) {
		if k.stop(i) {
			return
		}
		k.evaluate(cases[i], gasBoundary, false)
	})
}

// runPrograms enumerates all programs of 1..depth symbols.
func (k *checker) runPrograms(family string, alpha []symbol, depth int, gas uint64, ep evmkit.Epoch) {
	input := pattern(64, 0xd1)
	type job struct{ length, first int }
	var jobs []job
	for l := depth; l >= 1; l-- {
		for f := range alpha {
			jobs = append(jobs, job{l, f})
		}
	}
	ev.ParallelFor(len(jobs), func(i int) {
		j := jobs[i]
		cnt := 0
		enumPrograms(alpha, j.length, j.first, func(code []byte) {
			cnt++
			if k.stop(cnt) {
				return
			}
			k.evaluate(Case{Family: family, Code: append([]byte{}, code...), Input: input, Gas: gas, Ep: ep}, false, true)
		})
	})
}

// ---- (iii) valid opcodes per height ---------------------------------------------------------------------------

// The literal instruction sets (opcode byte ranges, hex) of the EVM forks, transcribed from the Yellow
// Paper appendix H (Frontier), EIP-7 (Homestead: DELEGATECALL), EIP-140/211/214 (Byzantium: REVERT,
// RETURNDATASIZE, RETURNDATACOPY, STATICCALL) and EIP-145 (SHL, SHR, SAR).
const (
	setFrontier  = "00-0b 10-1a 20 30-3c 40-45 50-5b 60-7f 80-8f 90-9f a0-a4 f0-f3 ff"
	setHomestead = setFrontier + " f4"
	setByzantium = setHomestead + " 3d 3e fa fd"
	setSpring    = setByzantium + " 1b-1d"
)

func parseSet(s string) (out [256]bool) {
	for _, f := range strings.Fields(s) {
		var lo, hi int
		if strings.Contains(f, "-") {
			fmt.Sscanf(f, "%x-%x", &lo, &hi)
		} else {
			fmt.Sscanf(f, "%x", &lo)
			hi = lo
		}
		for i := lo; i <= hi; i++ {
			out[i] = true
		}
	}
	return
}

func expectedSet(s evmkit.Schedule, h int64) (string, [256]bool) {
	f := s.ForkAt(h)
	switch {
	case f.Shifts:
		return "spring", parseSet(setSpring)
	case f.Byzantium:
		return "byzantium", parseSet(setByzantium)
	default:
		return "homestead", parseSet(setHomestead)
	}
}

// opcodeExecutes reports whether byte b, with 17 stack items available and ample gas, gets past the
// interpreter's validity/stack/gas checks at the given height (i.e. is an instruction there).
func opcodeExecutes(ep evmkit.Epoch, b byte) (bool, error) {
	a := new(asm)
	for i := 0; i < 17; i++ {
		a.pushU(0)
	}
	at := uint64(len(a.b))
	a.op(b)
	out := runImpl(Case{Code: a.bytes(), Gas: 1000000, Ep: ep}, nil)
	for _, s := range out.tr.steps {
		if s.pc == at && s.op == b {
			return true, out.err
		}
	}
	return false, out.err
}

func (k *checker) opcodeSets() {
	// self-consistency of the two transcriptions (harness literal vs refevm table)
	for _, f := range []refevm.Fork{{ExpByteGas: 10}, {Byzantium: true, ExpByteGas: 50}, {Byzantium: true, Shifts: true, ExpByteGas: 50}} {
		want := parseSet(setHomestead)
		if f.Byzantium {
			want = parseSet(setByzantium)
		}
		if f.Shifts {
			want = parseSet(setSpring)
		}
		if refevm.ValidOpcodes(f) != want {
			ev.Broken("C08: refevm opcode table and the harness literal disagree for %+v", f)
		}
	}
	type probe struct {
		s evmkit.Schedule
		h int64
	}
	var probes []probe
	for _, s := range evmkit.Schedules() {
		for _, h := range s.Heights() {
			probes = append(probes, probe{s, h})
		}
	}
	k.run.Set("opcode_set_probes", len(probes))
	ev.ParallelFor(len(probes), func(i int) {
		p := probes[i]
		ep, _ := evmkit.EpochByName(fmt.Sprintf("%s@%d", p.s.Name, p.h))
		setName, want := expectedSet(p.s, p.h)
		for b := 0; b < 256; b++ {
			got, err := opcodeExecutes(ep, byte(b))
			k.run.Eval(1)
			if got != want[b] {
				for r := 0; r < 3; r++ {
					if g2, _ := opcodeExecutes(ep, byte(b)); g2 != got {
						ev.Broken("C08: opcode validity probe not deterministic")
					}
				}
				k.run.Violate(ev.Violation{Scenario: "opcode-set", Oracle: "valid-set",
					CaseID: fmt.Sprintf("%s/0x%02x-%s", p.s.Name, b, opName(byte(b))),
					Detail: map[string]interface{}{"schedule": p.s.Name, "height": p.h, "opcode": b, "expected_set": setName,
						"expected_valid": want[b], "observed_executes": got, "observed_error": fmt.Sprint(err)}})
			}
		}
		k.classes.add(fmt.Sprintf("opcode-set|%s|%s", p.s.Name, setName))
		k.count("opcode-set", 256)
		// gas table and instruction semantics at this height: a small battery through the full comparator
		for _, c := range forkProbes(ep) {
			k.evaluate(c, true, false)
		}
	})
}

func forkProbes(ep evmkit.Epoch) []Case {
	var out []Case
	addc := func(code []byte) { out = append(out, Case{Family: "fork-probe", Code: code, Gas: gasWord, Ep: ep}) }
	addc(new(asm).pushU(2).pushU(3).op(opEXP).storeAndReturn().bytes())
	addc(new(asm).push(pow2(255)).pushU(3).op(opEXP).storeAndReturn().bytes())
	addc(new(asm).pushU(0).pushU(3).op(opEXP).storeAndReturn().bytes())
	addc(new(asm).pushU(1).pushU(4).op(opSHL).storeAndReturn().bytes())
	addc(new(asm).pushU(0x80).pushU(4).op(opSHR).storeAndReturn().bytes())
	addc(new(asm).push(pow2(255)).pushU(4).op(opSAR).storeAndReturn().bytes())
	addc(new(asm).pushU(0).pushU(0).op(opREVERT).bytes())
	addc(new(asm).op(opRETURNDATASIZE).storeAndReturn().bytes())
	addc(new(asm).pushU(0).pushU(0).pushU(0).op(opRETURNDATACOPY).op(opSTOP).bytes())
	addc(new(asm).op(opINVALID).bytes())
	return out
}

// ---- entry point ------------------------------------------------------------------------------------------------

func TestCheck(t *testing.T) {
	log.Root().SetHandler(log.DiscardHandler())
	// Every case allocates a fresh state (and most a fresh EVM) on a tiny live heap, so the collector would
	// run every few hundred cases and stall all 16 workers each time. A never-touched ballast raises the heap
	// goal: cycles come ~256 MiB apart (measured: 53 s -> 11 s for the program enumeration).
	mb := 256
	if v, err := strconv.Atoi(os.Getenv("VERIF_C08_BALLAST_MB")); err == nil {
		mb = v
	}
	gcBallast = make([]byte, mb<<20)
	run := ev.Start("exploration")
	run.Rule = "a case is (program bytes, call data, gas, epoch); classes = distinct (family, set of opcodes that executed, outcome, halt reason, class of the returned word, gas-boundary variant) over cases that executed at least one instruction"
	run.Assume("gas budgets are at most 10^7 (well below 2^61, where core/vm's 0xffffffffe0 memory-size cap would start to differ from the unbounded formula)")
	run.Assume("single call frame from an externally owned account with value 0; state-touching and frame-creating opcodes (BALANCE, EXTCODE*, BLOCKHASH, SLOAD/SSTORE, LOG*, CREATE, CALL*, SELFDESTRUCT) are outside the reference subset and only covered by the valid-opcode-set part")
	run.Assume("which instruction set a height selects is pinned by the literal table evmkit.Schedules (transcribed from params/config.go); the mapping HF5 -> Byzantium opcodes + EIP-145 shifts has no source outside core/vm (jump_table.go doc comment, interpreter.go), so for that mapping the check detects drift and fork-boundary off-by-ones, not a wrong original choice")
	run.Assume("operand values come from boundary lattices, not from the full 2^256 range; stacks deeper than 64 are compared on their top 24 items and their length")
	run.Assume("lattice, opcode-set and fork-probe cases each run on a brand-new vm.NewEVM; the enumerated programs run on one EVM per worker that is reused from case to case (fresh state per case), and every mismatch is re-confirmed three times on brand-new EVMs before it is reported")
	run.Assume("when both sides end in an exceptional halt, which exceptional condition fired is not compared (the Yellow Paper's Z is a disjunction)")

	k := &checker{run: run, classes: newClassSet()}
	k.deadline = run.Deadline(150*time.Second, 14*time.Minute)

	if d := ev.Replay(); d != nil {
		replay(k, d)
		run.Finish()
	}

	epochs := evmkit.Epochs()
	mainEpochs := epochs[:3]
	use := mainEpochs
	if run.Thorough() {
		use = epochs
	}
	var names []string
	for _, e := range use {
		names = append(names, e.Name)
	}
	run.Set("epochs", names)

	phases := map[string]float64{}
	last := time.Now()
	lap := func(name string) { phases[name] += time.Since(last).Seconds(); last = time.Now() }

	// development aid: VERIF_C08_ONLY=<family> restricts the run to one part (the run is then marked non-exhaustive)
	only := os.Getenv("VERIF_C08_ONLY")
	on := func(part string) bool { return only == "" || only == part }
	if only != "" {
		run.Cap("restricted to part " + only)
	}

	// (iii) opcode sets and fork probes at every height around every fork of every built-in schedule
	if on("opcode-set") {
		k.opcodeSets()
	}
	lap("opcode-set")

	// (i) operand / offset / length lattices
	for _, ep := range use {
		if !on("lattices") {
			break
		}
		k.runCases(famBinop(ep), true)
		k.runCases(famTernop(ep, run.Thorough()), true)
		k.runCases(famMem(ep), true)
		k.runCases(famSha3(ep), true)
		k.runCases(famCallDataLoad(ep), true)
		k.runCases(famCopy(ep), true)
		k.runCases(famReturn(ep), true)
		k.runCases(famJump(ep), true)
		k.runCases(famStackOps(ep), true)
		k.runCases(famEveryOpcode(ep), false)
	}
	lap("lattices")

	// (ii) all small programs
	baseDepth, richDepth := 5, 3
	if run.Thorough() {
		baseDepth, richDepth = 6, 4
	}
	base, rich := alphabetBase(), alphabetRich()
	run.Set("programs_base", map[string]interface{}{"alphabet": len(base), "depth": baseDepth, "per_epoch": programCount(len(base), baseDepth), "gas": 300, "variant_epochs_depth": 5})
	run.Set("programs_rich", map[string]interface{}{"alphabet": len(rich), "depth": richDepth, "per_epoch": programCount(len(rich), richDepth), "gas": 3000, "variant_epochs_depth": 3})
	for i, ep := range use {
		baseDepth, richDepth := baseDepth, richDepth
		if i >= 3 { // thorough tier, variant epochs: the quick depths
			baseDepth, richDepth = 5, 3
		}
		if on("programs") {
			k.runPrograms("programs", base, baseDepth, 300, ep)
		}
		lap("programs")
		if on("programs-rich") {
			k.runPrograms("programs-rich", rich, richDepth, 3000, ep)
		}
		lap("programs-rich")
	}

	run.Classes(k.classes.keys())
	run.Set("evaluations_per_family", k.famCounts())
	run.Set("phase_seconds", phases)
	run.Sample(map[string]interface{}{"family": "operands", "what": "PUSH b, PUSH a, OP, PUSH1 0, MSTORE, PUSH1 32, PUSH1 0, RETURN for all pairs of the 24-value lattice, at ample gas, at exactly the gas used and at one less"})
	run.Sample(map[string]interface{}{"family": "programs", "what": fmt.Sprintf("all %d programs of <= %d symbols over %d symbols, gas 300", programCount(len(base), baseDepth), baseDepth, len(base))})
	run.Sample(map[string]interface{}{"family": "everyop", "what": "longest programs: 1024 x PUSH1 followed by each opcode (stack limit), 2049+ bytes, 1025 steps"})
	run.Sample(map[string]interface{}{"family": "opcode-set", "what": "17 x PUSH1 0 then byte b, for b = 0..255, at 0 and h-1,h,h+1 around every fork height of 7 built-in schedules"})
	run.Finish()
}

func replay(k *checker, d *ev.ReplayDoc) {
	get := func(key string) string { s, _ := d.Detail[key].(string); return s }
	if d.Scenario == "opcode-set" {
		name := fmt.Sprintf("%s@%d", get("schedule"), int64(d.Detail["height"].(float64)))
		ep, ok := evmkit.EpochByName(name)
		if !ok {
			ev.Broken("replay: unknown epoch %s", name)
		}
		b := byte(d.Detail["opcode"].(float64))
		got, err := opcodeExecutes(ep, b)
		_, want := expectedSet(ep.Sched, ep.Height)
		if got != want[b] {
			k.run.Violate(ev.Violation{Scenario: d.Scenario, Oracle: d.Oracle, CaseID: d.CaseID, Detail: map[string]interface{}{
				"schedule": ep.Sched.Name, "height": ep.Height, "opcode": b, "expected_valid": want[b], "observed_executes": got, "observed_error": fmt.Sprint(err)}})
		}
		return
	}
	code, err1 := hex.DecodeString(get("code"))
	input, err2 := hex.DecodeString(get("input"))
	ep, ok := evmkit.EpochByName(get("epoch"))
	gas, _ := d.Detail["gas"].(float64)
	if err1 != nil || err2 != nil || !ok {
		ev.Broken("replay: malformed detail")
	}
	c := Case{Family: d.Scenario, Code: code, Input: input, Gas: uint64(gas), Ep: ep}
	if mm, _, _ := compare(c, false); mm != nil {
		k.report(c, mm, false)
	}
}
