package c08

import (
	"bytes"
	"encoding/hex"
	"fmt"
	"math/big"
	"strings"
	"sync"
	"time"

	"gitlab.com/aquachain/aquachain/common"
	"gitlab.com/aquachain/aquachain/core/vm"
	"gitlab.com/aquachain/aquachain/zzverif/evmkit"
	"gitlab.com/aquachain/aquachain/zzverif/ref/refevm"
)

// Case is one execution: a program, its call data, a gas budget, and an epoch.
type Case struct {
	Family string
	Code   []byte
	Input  []byte
	Gas    uint64
	Ep     evmkit.Epoch
}

// ---- the real EVM, observed through a step tracer ---------------------------------------------------

type implStep struct {
	pc        uint64
	op        byte
	gas, cost uint64
	stackLen  int
	stack     []*big.Int // the whole stack, or its top stackWindow items when deeper than stackFull
	memLen    int
	mem       []byte // nil when larger than memCopyLimit
}

const (
	memCopyLimit = 1 << 17
	stackFull    = 64
	stackWindow  = 24
)

type stepTracer struct {
	failStep *implStep // the instruction that did not pass the pre-execution checks (state as it was then)
	steps    []implStep
	faultPC  int64 // pc of an instruction whose execution (not its pre-checks) returned an error; -1 none
	badWord  string
	maxSteps int
}

func (t *stepTracer) CaptureStart(from, to common.Address, create bool, input []byte, gas uint64, value *big.Int) error {
	return nil
}
func (t *stepTracer) CaptureState(env *vm.EVM, pc uint64, op vm.OpCode, gas, cost uint64, memory *vm.Memory, stack *vm.Stack, contract *vm.Contract, depth int, err error) error {
	if depth != 1 {
		return nil
	}
	st := implStep{pc: pc, op: byte(op), gas: gas, cost: cost, memLen: memory.Len()}
	data := stack.Data()
	st.stackLen = len(data)
	if len(data) > stackFull {
		data = data[len(data)-stackWindow:]
	}
	st.stack = make([]*big.Int, len(data))
	for i, v := range data {
		if v.Sign() < 0 || v.BitLen() > 256 {
			t.badWord = fmt.Sprintf("stack[top-%d]=%s at pc=%d", len(data)-1-i, v.String(), pc)
		}
		st.stack[i] = new(big.Int).Set(v)
	}
	if err != nil {
		t.failStep = &st
		return nil
	}
	if st.memLen <= memCopyLimit {
		st.mem = append([]byte{}, memory.Data()...)
	}
	t.steps = append(t.steps, st)
	return nil
}
func (t *stepTracer) CaptureFault(env *vm.EVM, pc uint64, op vm.OpCode, gas, cost uint64, memory *vm.Memory, stack *vm.Stack, contract *vm.Contract, depth int, err error) error {
	if depth == 1 {
		t.faultPC = int64(pc)
	}
	return nil
}
func (t *stepTracer) CaptureEnd(output []byte, gasUsed uint64, d time.Duration, err error) error {
	return nil
}

type implOut struct {
	ret     []byte
	gasLeft uint64
	err     error
	status  refevm.Status
	tr      *stepTracer // only valid until the warm context is released
	panic   interface{}
	nsteps  int
	opset   [32]byte // opcodes that executed
}

// warmCtx is an EVM that is reused for many top-level calls (as one transaction's EVM is reused for all
// of its frames): the interpreter's integer pool and return-data buffer carry over from case to case.
type warmCtx struct {
	evm *vm.EVM
	tr  *stepTracer
}

var warmPools sync.Map // epoch name -> *sync.Pool

func getWarm(ep evmkit.Epoch) *warmCtx {
	p, _ := warmPools.LoadOrStore(ep.Name, &sync.Pool{})
	if w, ok := p.(*sync.Pool).Get().(*warmCtx); ok && w != nil {
		return w
	}
	tr := &stepTracer{faultPC: -1}
	return &warmCtx{evm: evmkit.NewEVM(ep, evmkit.NewState(), tr), tr: tr}
}

func putWarm(ep evmkit.Epoch, w *warmCtx) {
	p, _ := warmPools.LoadOrStore(ep.Name, &sync.Pool{})
	p.(*sync.Pool).Put(w)
}

// runImpl executes the case on the real EVM: a brand-new vm.NewEVM when w is nil, else the warm one.
func runImpl(c Case, w *warmCtx) (out implOut) {
	st := evmkit.NewState()
	st.CreateAccount(evmkit.Contract)
	st.SetCode(evmkit.Contract, c.Code)
	var tr *stepTracer
	var evm *vm.EVM
	if w != nil {
		tr, evm = w.tr, w.evm
		tr.steps, tr.faultPC, tr.badWord, tr.failStep = tr.steps[:0], -1, "", nil
		evm.StateDB = st
	} else {
		tr = &stepTracer{faultPC: -1}
		evm = evmkit.NewEVM(c.Ep, st, tr)
	}
	out.tr = tr
	defer func() {
		if r := recover(); r != nil {
			out.panic = r
			out.status = refevm.Failed
		}
		out.nsteps = len(tr.steps)
		for _, s := range tr.steps {
			out.opset[s.op/8] |= 1 << (s.op % 8)
		}
	}()
	ret, left, err := evm.Call(vm.AccountRef(evmkit.CallerAddr), evmkit.Contract, c.Input, c.Gas, new(big.Int))
	out.ret, out.gasLeft, out.err = ret, left, err
	switch {
	case err == nil:
		out.status = refevm.Stopped
	case err.Error() == "evm: execution reverted":
		out.status = refevm.Reverted
	default:
		out.status = refevm.Failed
	}
	return out
}

// ---- comparison ------------------------------------------------------------------------------------

// Mismatch is a disagreement between the real EVM and the reference on one case.
type Mismatch struct {
	Oracle string // result | gas | memory | halt | outcome | range | panic
	Op     byte   // blamed instruction
	In     []*big.Int
	Step   int
	Expect string
	Got    string
}

func opName(op byte) string { return vm.OpCode(op).String() }

// cls is the operand class used in case ids.
func cls(v *big.Int) string {
	switch {
	case v.Sign() == 0:
		return "0"
	case v.Cmp(big.NewInt(1)) == 0:
		return "1"
	case v.Cmp(big.NewInt(256)) < 0:
		return "lt256"
	case v.BitLen() <= 64:
		return "u64"
	case v.Cmp(two255) < 0:
		return "pos"
	case v.Cmp(two255) == 0:
		return "min"
	case v.Cmp(maxWord) == 0:
		return "max"
	default:
		return "neg"
	}
}

func caseID(op byte, in []*big.Int) string {
	var parts []string
	for i, v := range in {
		c := cls(v)
		if i == 0 && op >= 0x1b && op <= 0x1d { // shift amount: only "< 256" or not matters
			if v.Cmp(big.NewInt(256)) >= 0 {
				c = "ge256"
			}
		}
		parts = append(parts, c)
	}
	return opName(op) + "/" + strings.Join(parts, ",")
}

func (m *Mismatch) CaseID() string { return caseID(m.Op, m.In) }

func newBig(b []byte) *big.Int { return new(big.Int).SetBytes(b) }

func hexw(v *big.Int) string { return "0x" + v.Text(16) }

func stackStr(s []*big.Int) string {
	n := len(s)
	var parts []string
	for i := n - 1; i >= 0 && i >= n-4; i-- {
		parts = append(parts, hexw(s[i]))
	}
	return fmt.Sprintf("len=%d top-first=[%s]", n, strings.Join(parts, " "))
}

// compare runs the case on both sides and reports the first disagreement (nil: they agree).
// refOut is returned for classification.
func compare(c Case, warm bool) (*Mismatch, *refevm.Result, *implOut) {
	var w *warmCtx
	if warm {
		w = getWarm(c.Ep)
	}
	impl := runImpl(c, w)
	if w != nil && impl.panic == nil {
		defer putWarm(c.Ep, w) // a context that panicked mid-frame is dropped
	}
	var (
		mm       *Mismatch
		prevOp   byte
		prevIn   []*big.Int
		havePrev bool
	)
	delta := deltaTable(c.Ep.Fork)
	ref := refevm.Run(evmkit.RefEnv(c.Ep, c.Code, c.Input, c.Gas), func(s *refevm.Step) {
		if mm != nil {
			return
		}
		// inputs of this instruction, top first
		d := delta[s.Op]
		in := make([]*big.Int, 0, d)
		for i := 0; i < d && i < len(s.Stack); i++ {
			in = append(in, new(big.Int).Set(s.Stack[len(s.Stack)-1-i]))
		}
		defer func() { prevOp, prevIn, havePrev = s.Op, in, true }()
		// state produced by the previous instruction
		pre := func(what, exp, got string) {
			o, oin := prevOp, prevIn
			if !havePrev {
				o, oin = s.Op, in
			}
			mm = &Mismatch{Oracle: "result", Op: o, In: oin, Step: s.Index - 1, Expect: what + " " + exp, Got: what + " " + got}
		}
		preState := func(is *implStep) bool { // true: the state before this instruction differs
			if is.pc != s.PC || is.op != s.Op {
				pre("next pc/op", fmt.Sprintf("%d/%s", s.PC, opName(s.Op)), fmt.Sprintf("%d/%s", is.pc, opName(is.op)))
				return true
			}
			if is.stackLen != len(s.Stack) {
				pre("stack", stackStr(s.Stack), fmt.Sprintf("len=%d", is.stackLen))
				return true
			}
			lo := len(s.Stack) - len(is.stack)
			for i := range is.stack {
				if is.stack[i].Cmp(s.Stack[lo+i]) != 0 {
					pre("stack", stackStr(s.Stack), stackStr(is.stack))
					return true
				}
			}
			if is.gas != s.Gas { // a consequence of earlier charges; those were compared, so this is drift across an instruction
				pre("gas before next instruction", fmt.Sprint(s.Gas), fmt.Sprint(is.gas))
				return true
			}
			return false
		}
		if s.Index >= len(impl.tr.steps) {
			// the real EVM stopped although the specification executes this instruction: first see whether it
			// stopped on a state the previous instruction got wrong
			if s.Index == len(impl.tr.steps) && impl.tr.failStep != nil && preState(impl.tr.failStep) {
				return
			}
			if havePrev && impl.tr.faultPC >= 0 {
				mm = &Mismatch{Oracle: "halt", Op: prevOp, In: prevIn, Step: s.Index - 1,
					Expect: "instruction completes", Got: fmt.Sprintf("execution error: %v", impl.err)}
			} else {
				mm = &Mismatch{Oracle: "halt", Op: s.Op, In: in, Step: s.Index,
					Expect: fmt.Sprintf("%s at pc=%d executes (gas %d, cost %d)", opName(s.Op), s.PC, s.Gas, s.Cost),
					Got:    fmt.Sprintf("halted before it: %v", impl.err)}
			}
			return
		}
		is := impl.tr.steps[s.Index]
		if preState(&is) {
			return
		}
		// charge and expansion of this instruction
		if is.cost != s.Cost {
			mm = &Mismatch{Oracle: "gas", Op: s.Op, In: in, Step: s.Index, Expect: fmt.Sprintf("cost %d", s.Cost), Got: fmt.Sprintf("cost %d", is.cost)}
			return
		}
		if is.memLen != len(s.Mem) {
			mm = &Mismatch{Oracle: "memory", Op: s.Op, In: in, Step: s.Index, Expect: fmt.Sprintf("memory size %d", len(s.Mem)), Got: fmt.Sprintf("memory size %d", is.memLen)}
			return
		}
		if is.mem != nil && !bytes.Equal(is.mem, s.Mem) {
			i := 0
			for i < len(s.Mem) && is.mem[i] == s.Mem[i] {
				i++
			}
			pre("memory content", fmt.Sprintf("byte[%d]=%02x", i, s.Mem[i]), fmt.Sprintf("byte[%d]=%02x", i, is.mem[i]))
			return
		}
	})
	if ref.Unsupported {
		panic(fmt.Sprintf("c08: generated a program outside the reference subset: %x (op %s)", c.Code, opName(ref.LastOp)))
	}
	if impl.panic != nil {
		return &Mismatch{Oracle: "panic", Op: ref.LastOp, In: ref.LastIn, Expect: "no panic", Got: fmt.Sprint(impl.panic)}, ref, &impl
	}
	if impl.tr.badWord != "" && mm == nil {
		return &Mismatch{Oracle: "range", Op: ref.LastOp, In: ref.LastIn, Expect: "stack words in [0,2^256)", Got: impl.tr.badWord}, ref, &impl
	}
	sameOutcome := impl.status == ref.Status && impl.gasLeft == ref.GasLeft && bytes.Equal(impl.ret, ref.Ret)
	if mm != nil {
		if mm.Oracle == "halt" && sameOutcome {
			mm = nil // both fail with all gas consumed: which exceptional condition fired first is unobservable
		} else {
			return mm, ref, &impl
		}
	}
	if !sameOutcome {
		if ref.Steps < len(impl.tr.steps) && ref.Status == refevm.Failed {
			return &Mismatch{Oracle: "halt", Op: ref.LastOp, In: ref.LastIn, Step: ref.Steps,
				Expect: "exceptional halt (" + ref.Why + ")", Got: fmt.Sprintf("%s executed; outcome %s gasLeft=%d", opName(ref.LastOp), impl.status, impl.gasLeft)}, ref, &impl
		}
		return &Mismatch{Oracle: "outcome", Op: ref.LastOp, In: ref.LastIn, Step: ref.Steps,
			Expect: fmt.Sprintf("%s %s gasLeft=%d ret=%x", ref.Status, ref.Why, ref.GasLeft, ref.Ret),
			Got:    fmt.Sprintf("%s (%v) gasLeft=%d ret=%x", impl.status, impl.err, impl.gasLeft, impl.ret)}, ref, &impl
	}
	return nil, ref, &impl
}

var deltaCache = map[refevm.Fork]*[256]int{}

func deltaTable(f refevm.Fork) *[256]int {
	// callers are concurrent: tables are precomputed in init for every fork combination
	return deltaCache[f]
}

func init() {
	for _, byz := range []bool{false, true} {
		for _, sh := range []bool{false, true} {
			for _, e := range []uint64{10, 50} {
				f := refevm.Fork{Byzantium: byz, Shifts: sh, ExpByteGas: e}
				var d [256]int
				for op := 0; op < 256; op++ {
					d[op] = refevm.Delta(f, byte(op))
				}
				deltaCache[f] = &d
			}
		}
	}
}

func (c Case) detail(m *Mismatch) map[string]interface{} {
	d := map[string]interface{}{
		"family": c.Family, "code": hex.EncodeToString(c.Code), "input": hex.EncodeToString(c.Input),
		"gas": c.Gas, "epoch": c.Ep.Name,
	}
	if m != nil {
		d["blamed_op"] = opName(m.Op)
		var in []string
		for _, v := range m.In {
			in = append(in, hexw(v))
		}
		d["blamed_inputs_top_first"] = in
		d["step"] = m.Step
		d["expected"] = m.Expect
		d["observed"] = m.Got
	}
	return d
}

var (
	two255  = new(big.Int).Lsh(big.NewInt(1), 255)
	two256  = new(big.Int).Lsh(big.NewInt(1), 256)
	maxWord = new(big.Int).Sub(two256, big.NewInt(1))
)
