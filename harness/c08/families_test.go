package c08

import (
	"bytes"
	"math/big"

	"gitlab.com/aquachain/aquachain/zzverif/evmkit"
	"gitlab.com/aquachain/aquachain/zzverif/ref/refevm"
)

// ---- tiny assembler ----------------------------------------------------------------------------------

type asm struct{ b []byte }

func (a *asm) op(ops ...byte) *asm { a.b = append(a.b, ops...); return a }

// push emits the shortest PUSHn holding v (PUSH1 0x00 for zero).
func (a *asm) push(v *big.Int) *asm {
	bs := v.Bytes()
	if len(bs) == 0 {
		bs = []byte{0}
	}
	a.b = append(a.b, byte(0x60+len(bs)-1))
	a.b = append(a.b, bs...)
	return a
}
func (a *asm) pushU(v uint64) *asm { return a.push(new(big.Int).SetUint64(v)) }
func (a *asm) bytes() []byte       { return a.b }

const (
	opSTOP, opADD, opMUL, opSUB, opDIV, opSDIV, opMOD, opSMOD, opADDMOD, opMULMOD, opEXP, opSIGNEXTEND = 0x00, 0x01, 0x02, 0x03, 0x04, 0x05, 0x06, 0x07, 0x08, 0x09, 0x0a, 0x0b
	opLT, opGT, opSLT, opSGT, opEQ, opISZERO, opAND, opOR, opXOR, opNOT, opBYTE, opSHL, opSHR, opSAR   = 0x10, 0x11, 0x12, 0x13, 0x14, 0x15, 0x16, 0x17, 0x18, 0x19, 0x1a, 0x1b, 0x1c, 0x1d
	opSHA3                                                                                             = 0x20
	opCALLDATALOAD, opCALLDATASIZE, opCALLDATACOPY, opCODESIZE, opCODECOPY                             = 0x35, 0x36, 0x37, 0x38, 0x39
	opRETURNDATASIZE, opRETURNDATACOPY                                                                 = 0x3d, 0x3e
	opPOP, opMLOAD, opMSTORE, opMSTORE8, opJUMP, opJUMPI, opPC, opMSIZE, opGAS, opJUMPDEST             = 0x50, 0x51, 0x52, 0x53, 0x56, 0x57, 0x58, 0x59, 0x5a, 0x5b
	opPUSH1, opPUSH2, opPUSH32, opDUP1, opDUP2, opSWAP1, opSWAP2                                       = 0x60, 0x61, 0x7f, 0x80, 0x81, 0x90, 0x91
	opRETURN, opREVERT, opINVALID                                                                      = 0xf3, 0xfd, 0xfe
)

// ---- lattices ------------------------------------------------------------------------------------------

func pow2(n uint) *big.Int { return new(big.Int).Lsh(big.NewInt(1), n) }
func add(x *big.Int, d int64) *big.Int {
	return new(big.Int).Add(x, big.NewInt(d))
}
func rep(pattern []byte) *big.Int {
	b := make([]byte, 32)
	for i := range b {
		b[i] = pattern[i%len(pattern)]
	}
	return new(big.Int).SetBytes(b)
}

// lattice24 is the 24-value boundary lattice of DESIGN.md C08(i).
func lattice24() []*big.Int {
	return []*big.Int{
		big.NewInt(0), big.NewInt(1), big.NewInt(2), big.NewInt(7), big.NewInt(8), big.NewInt(31), big.NewInt(32), big.NewInt(33),
		big.NewInt(255), big.NewInt(256), big.NewInt(257), pow2(63), add(pow2(64), -1), pow2(64), pow2(128),
		add(pow2(255), -1), pow2(255), add(pow2(255), 1), add(pow2(256), -2), add(pow2(256), -1),
		rep([]byte{0x55}), rep([]byte{0xaa}), rep([]byte{0x01, 0x23, 0x45, 0x67, 0x89, 0xab, 0xcd, 0xef}), rep([]byte{0xfe, 0xdc, 0xba, 0x98, 0x76, 0x54, 0x32, 0x10}),
	}
}

func lattice12() []*big.Int {
	return []*big.Int{
		big.NewInt(0), big.NewInt(1), big.NewInt(2), big.NewInt(255), big.NewInt(256), add(pow2(64), -1), pow2(128),
		add(pow2(255), -1), pow2(255), add(pow2(256), -2), add(pow2(256), -1), rep([]byte{0x55}),
	}
}

// offsets: memory/data offsets including values whose low 64 (or 32) bits are small, so that a truncating
// conversion would make an unaffordable access look affordable.
func offsetLattice() []*big.Int {
	return []*big.Int{
		big.NewInt(0), big.NewInt(1), big.NewInt(31), big.NewInt(32), big.NewInt(33), big.NewInt(63), big.NewInt(64), big.NewInt(95),
		big.NewInt(96), big.NewInt(1023), big.NewInt(1024), big.NewInt(65535), big.NewInt(65536),
		add(pow2(32), -1), pow2(32), add(pow2(32), 32),
		big.NewInt(0xffffffffe0 - 32), big.NewInt(0xffffffffe0 - 31), big.NewInt(0xffffffffe0), big.NewInt(0xffffffffe0 + 1),
		add(pow2(63), -1), pow2(63), add(pow2(63), 32), add(pow2(64), -33), add(pow2(64), -32), add(pow2(64), -1),
		pow2(64), add(pow2(64), 32), pow2(255), add(pow2(255), 32), add(pow2(256), -32), add(pow2(256), -1),
	}
}

func lengthLattice() []*big.Int {
	return []*big.Int{
		big.NewInt(0), big.NewInt(1), big.NewInt(31), big.NewInt(32), big.NewInt(33), big.NewInt(64), big.NewInt(65), big.NewInt(1024),
		big.NewInt(65536), pow2(32), add(pow2(32), 32), big.NewInt(0xffffffffe0), add(pow2(64), -1), pow2(64), add(pow2(64), 32),
		pow2(255), add(pow2(256), -1),
	}
}

func smallOffsets() []*big.Int {
	return []*big.Int{big.NewInt(0), big.NewInt(1), big.NewInt(31), big.NewInt(32), big.NewInt(33), big.NewInt(100),
		add(pow2(64), 32), add(pow2(256), -1)}
}

func pattern(n int, seed byte) []byte {
	b := make([]byte, n)
	for i := range b {
		b[i] = seed + byte(i)*7 + byte(i>>5)
		if b[i] == 0 {
			b[i] = 0xa5
		}
	}
	return b
}

// storeAndReturn appends "PUSH1 0 MSTORE PUSH1 32 PUSH1 0 RETURN": returns the word on top of the stack.
func (a *asm) storeAndReturn() *asm {
	return a.pushU(0).op(opMSTORE).pushU(32).pushU(0).op(opRETURN)
}

const (
	gasWord = 100000   // plenty for word arithmetic programs
	gasMem  = 10000000 // lets memory grow to ~2 MiB: truncated huge offsets would be affordable
)

// ---- (i) operand families ----------------------------------------------------------------------------

func famBinop(ep evmkit.Epoch) []Case {
	ops := []byte{opADD, opMUL, opSUB, opDIV, opSDIV, opMOD, opSMOD, opEXP, opSIGNEXTEND, opLT, opGT, opSLT, opSGT, opEQ,
		opAND, opOR, opXOR, opBYTE, opSHL, opSHR, opSAR}
	L := lattice24()
	var out []Case
	for _, o := range ops {
		for _, a := range L {
			for _, b := range L {
				// a is mu_s[0] (pushed last)
				code := new(asm).push(b).push(a).op(o).storeAndReturn().bytes()
				out = append(out, Case{Family: "operands", Code: code, Gas: gasWord, Ep: ep})
			}
		}
	}
	for _, o := range []byte{opISZERO, opNOT} {
		for _, a := range L {
			out = append(out, Case{Family: "operands", Code: new(asm).push(a).op(o).storeAndReturn().bytes(), Gas: gasWord, Ep: ep})
		}
	}
	return out
}

func famTernop(ep evmkit.Epoch, full bool) []Case {
	L := lattice12()
	if full {
		L = lattice24()
	}
	var out []Case
	for _, o := range []byte{opADDMOD, opMULMOD} {
		for _, a := range L {
			for _, b := range L {
				for _, n := range L {
					code := new(asm).push(n).push(b).push(a).op(o).storeAndReturn().bytes()
					out = append(out, Case{Family: "operands", Code: code, Gas: gasWord, Ep: ep})
				}
			}
		}
	}
	return out
}

func prefill(a *asm) *asm { // memory[0..64) := pattern
	a.push(new(big.Int).SetBytes(pattern(32, 0x11))).pushU(0).op(opMSTORE)
	a.push(new(big.Int).SetBytes(pattern(32, 0x71))).pushU(32).op(opMSTORE)
	return a
}

func famMem(ep evmkit.Epoch) []Case {
	var out []Case
	vals := []*big.Int{new(big.Int).SetBytes(pattern(32, 0x31)), add(pow2(256), -1), big.NewInt(0x1ff), big.NewInt(0x100), big.NewInt(0)}
	for _, off := range offsetLattice() {
		tail := func(a *asm) []byte { return a.op(opMSIZE).pushU(0).op(opMLOAD).op(opSTOP).bytes() }
		out = append(out, Case{Family: "memory", Code: tail(prefill(new(asm)).push(off).op(opMLOAD)), Gas: gasMem, Ep: ep})
		out = append(out, Case{Family: "memory", Code: tail(new(asm).push(off).op(opMLOAD)), Gas: gasMem, Ep: ep})
		for _, v := range vals {
			out = append(out, Case{Family: "memory", Code: tail(prefill(new(asm)).push(v).push(off).op(opMSTORE)), Gas: gasMem, Ep: ep})
			out = append(out, Case{Family: "memory", Code: tail(prefill(new(asm)).push(v).push(off).op(opMSTORE8)), Gas: gasMem, Ep: ep})
		}
	}
	return out
}

func famSha3(ep evmkit.Epoch) []Case {
	var out []Case
	input := pattern(320, 0x23)
	lens := append(lengthLattice(), big.NewInt(135), big.NewInt(136), big.NewInt(137), big.NewInt(272), big.NewInt(300))
	for _, off := range offsetLattice() {
		for _, l := range lens {
			a := new(asm).pushU(320).pushU(0).pushU(0).op(opCALLDATACOPY) // memory := input
			a.push(l).push(off).op(opSHA3).op(opMSIZE).op(opSTOP)
			out = append(out, Case{Family: "sha3", Code: a.bytes(), Input: input, Gas: gasMem, Ep: ep})
		}
	}
	return out
}

func famCallDataLoad(ep evmkit.Epoch) []Case {
	var out []Case
	for _, n := range []int{0, 1, 31, 32, 33, 64, 100} {
		input := pattern(n, 0x41)
		for _, off := range offsetLattice() {
			a := new(asm).push(off).op(opCALLDATALOAD).op(opCALLDATASIZE).op(opSTOP)
			out = append(out, Case{Family: "calldata", Code: a.bytes(), Input: input, Gas: gasWord, Ep: ep})
		}
	}
	return out
}

func famCopy(ep evmkit.Epoch) []Case {
	var out []Case
	input := pattern(100, 0x51)
	dataOffs := []*big.Int{big.NewInt(0), big.NewInt(1), big.NewInt(31), big.NewInt(32), big.NewInt(99), big.NewInt(100), big.NewInt(101),
		add(pow2(32), 1), add(pow2(64), -1), pow2(64), add(pow2(64), 1), add(pow2(256), -1)}
	lens := []*big.Int{big.NewInt(0), big.NewInt(1), big.NewInt(32), big.NewInt(33), big.NewInt(100), big.NewInt(101), big.NewInt(200),
		add(pow2(32), 32), pow2(64), add(pow2(64), 32), add(pow2(256), -1)}
	for _, o := range []byte{opCALLDATACOPY, opCODECOPY, opRETURNDATACOPY} {
		for _, mo := range smallOffsets() {
			for _, do := range dataOffs {
				for _, l := range lens {
					a := prefill(new(asm)).push(l).push(do).push(mo).op(o).op(opMSIZE).op(opSTOP)
					// pad the code so CODECOPY has something to copy beyond the instructions
					code := append(a.bytes(), pattern(40, 0x61)...)
					out = append(out, Case{Family: "copy", Code: code, Input: input, Gas: gasMem, Ep: ep})
				}
			}
		}
	}
	return out
}

func famReturn(ep evmkit.Epoch) []Case {
	var out []Case
	for _, o := range []byte{opRETURN, opREVERT} {
		for _, off := range offsetLattice() {
			for _, l := range lengthLattice() {
				a := prefill(new(asm)).push(l).push(off).op(o)
				out = append(out, Case{Family: "return", Code: a.bytes(), Gas: gasMem, Ep: ep})
			}
		}
	}
	return out
}

func famJump(ep evmkit.Epoch) []Case {
	var out []Case
	// layouts: body placed after the jump; the position of interest p is where a JUMPDEST byte sits
	type layout struct {
		name string
		body []byte // bytes following the JUMP/JUMPI instruction
	}
	layouts := []layout{
		{"dest-first", []byte{opJUMPDEST, opPC, opSTOP}},
		{"dest-after-stop", []byte{opSTOP, opJUMPDEST, opPC, opSTOP}},
		{"dest-in-push1-data", []byte{opPUSH1, opJUMPDEST, opPC, opSTOP}},
		{"dest-in-push2-data", []byte{opPUSH2, 0x00, opJUMPDEST, opJUMPDEST, opPC, opSTOP}},
		{"dest-in-push32-data-tail", append(append([]byte{opPUSH32}, make([]byte, 31)...), opJUMPDEST, opJUMPDEST, opPC)},
		{"dest-in-truncated-push", []byte{opSTOP, opPUSH32, opJUMPDEST, opJUMPDEST}},
		{"dest-last-byte", []byte{opSTOP, opSTOP, opJUMPDEST}},
		{"no-dest", []byte{opSTOP, opSTOP}},
	}
	conds := []*big.Int{nil, big.NewInt(0), big.NewInt(1), pow2(255), add(pow2(256), -1), pow2(64)}
	for _, lay := range layouts {
		for _, cond := range conds {
			// destinations: every byte position of the program and beyond, plus aliases of them modulo 2^32/2^63/2^64
			for rel := -1; rel <= len(lay.body)+1; rel++ {
				for _, hi := range []*big.Int{big.NewInt(0), pow2(32), pow2(63), pow2(64), pow2(255)} {
					// the prefix has a fixed length: PUSH32 dest [PUSH32 cond swap-free order] JUMP(I)
					a := new(asm)
					plen := 33 + 1
					if cond != nil {
						plen += 33
					}
					dest := new(big.Int).Add(hi, big.NewInt(int64(plen+rel)))
					push32 := func(v *big.Int) {
						var w [32]byte
						v.FillBytes(w[:])
						a.op(opPUSH32).op(w[:]...)
					}
					if cond != nil {
						push32(cond)
						push32(dest)
						a.op(opJUMPI)
					} else {
						push32(dest)
						a.op(opJUMP)
					}
					a.op(lay.body...)
					out = append(out, Case{Family: "jump", Code: a.bytes(), Gas: gasWord, Ep: ep})
				}
			}
		}
	}
	// jump-destination analysis: a PUSH of every width at every alignment modulo 8 whose data consists of
	// JUMPDEST bytes; a jump to every byte of the program (padding JUMPDESTs: valid; the PUSH opcode and
	// every data byte: invalid; the JUMPDEST after the data: valid)
	for n := 1; n <= 32; n++ {
		for al := 0; al < 8; al++ {
			pad := ((al-3)%8 + 8) % 8
			body := bytes.Repeat([]byte{opJUMPDEST}, pad)
			body = append(body, byte(0x5f+n))
			body = append(body, bytes.Repeat([]byte{opJUMPDEST}, n)...)
			body = append(body, opJUMPDEST, opPC, opSTOP)
			for t := 3; t < 3+len(body); t++ {
				a := new(asm).op(opPUSH1, byte(t), opJUMP).op(body...)
				out = append(out, Case{Family: "jump", Code: a.bytes(), Gas: gasWord, Ep: ep})
				if t%3 == 0 {
					b := new(asm).op(opPUSH1, 1, opPUSH1, byte(t+2), opJUMPI).op(body...)
					out = append(out, Case{Family: "jump", Code: b.bytes(), Gas: gasWord, Ep: ep})
				}
			}
		}
	}
	for _, d := range append(offsetLattice(), lattice24()...) {
		out = append(out, Case{Family: "jump", Code: new(asm).push(d).op(opJUMP, opJUMPDEST).bytes(), Gas: gasWord, Ep: ep})
		out = append(out, Case{Family: "jump", Code: new(asm).pushU(1).push(d).op(opJUMPI, opJUMPDEST).bytes(), Gas: gasWord, Ep: ep})
		out = append(out, Case{Family: "jump", Code: new(asm).pushU(0).push(d).op(opJUMPI, opJUMPDEST).bytes(), Gas: gasWord, Ep: ep})
	}
	return out
}

func famStackOps(ep evmkit.Epoch) []Case {
	var out []Case
	// PUSHn with k <= n data bytes present (truncated at the end of the code), and followed by code
	for n := 1; n <= 32; n++ {
		for k := 0; k <= n; k++ {
			code := append([]byte{byte(0x60 + n - 1)}, pattern(k, 0x81)...)
			out = append(out, Case{Family: "stack", Code: code, Gas: gasWord, Ep: ep})
		}
		full := append([]byte{byte(0x60 + n - 1)}, pattern(n, 0x91)...)
		out = append(out, Case{Family: "stack", Code: append(append([]byte{}, full...), opPC, opSTOP), Gas: gasWord, Ep: ep})
	}
	// DUPn / SWAPn on stacks of depth n-1 .. 18 with distinct values
	for n := 1; n <= 16; n++ {
		for _, o := range []byte{byte(0x80 + n - 1), byte(0x90 + n - 1)} {
			for depth := n - 1; depth <= 18; depth++ {
				a := new(asm)
				for i := 0; i < depth; i++ {
					a.pushU(uint64(0xa0 + i))
				}
				a.op(o).op(opSTOP)
				out = append(out, Case{Family: "stack", Code: a.bytes(), Gas: gasWord, Ep: ep})
			}
		}
	}
	// the stack limit: DUPn / SWAPn / PUSH1 on stacks of 1023 and 1024 items, followed by an instruction
	// that pops (an overflow that is not refused at the instruction itself would go unnoticed otherwise)
	// or by STOP
	for _, depth := range []int{1023, 1024} {
		base := new(asm)
		for i := 0; i < depth; i++ {
			base.op(opPUSH1, byte(1+i%200))
		}
		var ops []byte
		for n := 1; n <= 16; n++ {
			ops = append(ops, byte(0x80+n-1), byte(0x90+n-1))
		}
		ops = append(ops, opPC, opMSIZE)
		for _, o := range ops {
			for _, tail := range [][]byte{{opSTOP}, {opPOP, opSTOP}, {opPUSH1, 0, opMSTORE, opSTOP}, {0x01 /* ADD */, opSTOP}} {
				code := append(append(append([]byte{}, base.bytes()...), o), tail...)
				out = append(out, Case{Family: "stack", Code: code, Gas: 1000000, Ep: ep})
			}
		}
	}
	return out
}

// famEveryOpcode runs every opcode byte on stacks of depth 0..delta (underflow boundary) and of depth
// 1022..1024 (the 1024 limit), for opcodes the reference can execute or that are invalid in the fork.
func famEveryOpcode(ep evmkit.Epoch) []Case {
	var out []Case
	valid := refevm.ValidOpcodes(ep.Fork)
	input := pattern(64, 0xb1)
	for b := 0; b < 256; b++ {
		if valid[b] && !refevm.Supported(ep.Fork, byte(b)) {
			continue
		}
		d := refevm.Delta(ep.Fork, byte(b))
		depths := []int{1022, 1023, 1024}
		for k := 0; k <= d+1; k++ {
			depths = append(depths, k)
		}
		for _, depth := range depths {
			a := new(asm)
			for i := 0; i < depth; i++ {
				a.pushU(uint64(depth - i)) // top of stack = 1, next = 2, ...
			}
			a.op(byte(b))
			// what follows is PUSH data for PUSHn and code otherwise: JUMPDEST bytes are harmless as both
			code := append(a.bytes(), bytes.Repeat([]byte{opJUMPDEST}, 33)...)
			out = append(out, Case{Family: "everyop", Code: code, Input: input, Gas: gasWord, Ep: ep})
		}
	}
	return out
}

// ---- (ii) program enumeration --------------------------------------------------------------------------

type symbol []byte

func alphabetBase() []symbol {
	return []symbol{
		{opPUSH1, 0x00}, {opPUSH1, 0x01}, {opPUSH1, 0x03}, {opPUSH1, opJUMPDEST},
		{opDUP1}, {opSWAP1}, {opADD}, {opMSTORE}, {opMLOAD}, {opPOP}, {opPC}, {opJUMP}, {opJUMPI}, {opJUMPDEST}, {opSTOP},
	}
}

func alphabetRich() []symbol {
	return append(alphabetBase(), []symbol{
		{opPUSH1, 0x20}, {opPUSH2, 0x01, 0x00}, {opPUSH32 - 1, 0xff}, // the last one is a PUSH31 with 1 byte of data: swallows what follows
		{opMSTORE8}, {opCALLDATALOAD}, {opCALLDATACOPY}, {opCODECOPY}, {opGAS}, {opMSIZE}, {opDUP2}, {opSWAP2}, {opSUB}, {opMUL},
		{opSDIV}, {opSMOD}, {opLT}, {opSLT}, {opISZERO}, {opNOT}, {opBYTE}, {opSIGNEXTEND}, {opEXP}, {opSHL}, {opSHR}, {opSAR}, {opSHA3},
		{opRETURN}, {opREVERT}, {opRETURNDATASIZE}, {opRETURNDATACOPY}, {opINVALID},
	}...)
}

// programCount is sum_{l=1..depth} n^l.
func programCount(n, depth int) int {
	t, p := 0, 1
	for l := 1; l <= depth; l++ {
		p *= n
		t += p
	}
	return t
}

// enumPrograms calls f for every program of exactly `length` symbols whose first symbol is `first`.
func enumPrograms(alpha []symbol, length, first int, f func(code []byte)) {
	idx := make([]int, length)
	idx[0] = first
	buf := make([]byte, 0, 128)
	for {
		buf = buf[:0]
		for _, i := range idx {
			buf = append(buf, alpha[i]...)
		}
		f(buf)
		// odometer over positions 1..length-1
		p := length - 1
		for p >= 1 {
			idx[p]++
			if idx[p] < len(alpha) {
				break
			}
			idx[p] = 0
			p--
		}
		if p < 1 {
			return
		}
	}
}
