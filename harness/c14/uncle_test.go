package c14

// Part U: the algorithm version of an UNCLE is determined by the uncle's own height. On the testnet2
// schedule (its difficulty formula has no floor, so valid seals can be found at difficulty 16) a block at
// height F-1+dist (dist 1, 3; F every version-changing fork height) carries an uncle of height F-1, sealed
// with a nonce that meets the target under (a) the uncle's scheduled algorithm only, (b) the nephew's
// algorithm only, (c) both, (d) neither. VerifyUncles of the real engine must accept exactly the cases
// the reference accepts for the uncle header under the version its height selects.

import (
	"fmt"
	"math/big"

	"gitlab.com/aquachain/aquachain/core/types"
	"gitlab.com/aquachain/aquachain/params"
	"gitlab.com/aquachain/aquachain/zzverif/c13"
	"gitlab.com/aquachain/aquachain/zzverif/ev"
	"gitlab.com/aquachain/aquachain/zzverif/ref/refhdr"
)

type uncleCase struct {
	F, Dist int
	Nonce   uint64
	Class   string
	// Known: the uncle's header is already known to the chain as a side header (headers become known without
	// their seal having been checked, e.g. in a sparsely checked header-first batch): same verdict
	Known bool
}

// uncleScenario builds the stub chain, the uncle (unsealed) and the carrying block's header.
func uncleScenario(cfg *params.ChainConfig, net *refhdr.Network, F, dist int) (*c13.StubChain, *types.Header, *types.Header) {
	stub := c13.NewStubChain(cfg)
	H := F - 1 + dist
	var parent *types.Header
	byHeight := map[int]*types.Header{}
	for n := F - 9; n < H; n++ {
		if n < 0 {
			continue
		}
		h := c13.Ancestor(cfg, int64(n), parent, int64(900000000+15*n), big.NewInt(16), c13.DefaultGas)
		stub.AddBlock(types.NewBlockWithHeader(h))
		byHeight[n], parent = h, h
	}
	uncle := c13.Child(net, cfg, byHeight[F-2], 13)
	uncle.Extra = []byte("uncle")
	blk := c13.Ancestor(cfg, int64(H), byHeight[H-1], int64(900000000+15*H), big.NewInt(16), c13.DefaultGas)
	return stub, uncle, blk
}

func sealedAs(u *types.Header, evalVersion, finalVersion byte, nonce uint64) *types.Header {
	h := withSeal(u, evalVersion, u.Difficulty, nonce)
	h.Version = types.HeaderVersion(finalVersion)
	return h
}

func probeUncle(cfg *params.ChainConfig, net *refhdr.Network, c uncleCase) string {
	stub, u, bh := uncleScenario(cfg, net, c.F, c.Dist)
	vU := byte(cfg.GetBlockVersion(u.Number))
	vN := byte(cfg.GetBlockVersion(bh.Number))
	eval := vU
	if c.Class == "nephew-only" {
		eval = vN // the mix digest that goes with the nephew's algorithm
	}
	su := sealedAs(u, eval, vU, c.Nonce)
	want := toRef(su).Accept(ethParams(su.Number.Uint64()))
	blk := types.NewBlock(bh, nil, []*types.Header{types.CopyHeader(su)}, nil)
	if c.Known {
		stub.Add(types.CopyHeader(su))
	}
	err := engineByName("tester").e.VerifyUncles(stub, blk)
	if (err == nil) != want.Accept {
		return fmt.Sprintf("block #%d (version %d) carrying an uncle of height %d (scheduled version %d, header already known: %v) sealed %s: VerifyUncles=%s but the reference, under the uncle's own version, says accept=%v (%s)",
			bh.Number, vN, u.Number, vU, c.Known, c.Class, errStr(err), want.Accept, want.Why)
	}
	return ""
}

func partUncleVersion(run *ev.Run, col *collector) {
	cfg := params.Testnet2ChainConfig
	net := refhdr.ByName("testnet2")
	if net == nil {
		ev.Broken("refhdr has no testnet2 network")
	}
	var forks []int
	for n := 2; n < 64; n++ {
		if cfg.GetBlockVersion(big.NewInt(int64(n))) != cfg.GetBlockVersion(big.NewInt(int64(n-1))) {
			forks = append(forks, n)
		}
	}
	run.Set("uncle_version_forks_testnet2", forks)
	for _, F := range forks {
		for _, dist := range []int{1, 3} {
			_, u, bh := uncleScenario(cfg, net, F, dist)
			vU := byte(cfg.GetBlockVersion(u.Number))
			vN := byte(cfg.GetBlockVersion(bh.Number))
			if u.Difficulty.Cmp(big.NewInt(16)) != 0 {
				ev.Broken("uncle difficulty %v, expected the floor-less formula to keep 16", u.Difficulty)
			}
			// classify nonces by the two verdicts until each class has a representative
			found := map[string]uint64{}
			for nonce := uint64(1); nonce < 4000 && len(found) < 4; nonce++ {
				a := toRef(sealedAs(u, vU, vU, nonce)).Accept(ethParams(u.Number.Uint64())).Accept
				b := toRef(sealedAs(u, vN, vN, nonce)).Accept(ethParams(u.Number.Uint64())).Accept
				cl := map[[2]bool]string{{true, false}: "own-only", {false, true}: "nephew-only", {true, true}: "both", {false, false}: "neither"}[[2]bool{a, b}]
				if _, ok := found[cl]; !ok {
					found[cl] = nonce
				}
			}
			for _, cl := range []string{"own-only", "nephew-only", "both", "neither"} {
				nonce, ok := found[cl]
				if !ok {
					run.Cap(fmt.Sprintf("uncle-version F=%d: no nonce of class %s among 4000", F, cl))
					continue
				}
				for _, known := range []bool{false, true} {
					c := uncleCase{F, dist, nonce, cl, known}
					run.Eval(1)
					det := map[string]interface{}{"kind": "uncle-version", "fork": F, "dist": dist, "nonce": nonce, "class": cl, "known": known}
					if col.check("uncle-version", "uncle-seal-checked-under-its-own-version", fmt.Sprintf("testnet2/F=%d/v%d->v%d/%s/known=%v", F, vU, vN, cl, known), det,
						func() string { return probeUncle(cfg, net, c) }) {
						run.Class(fmt.Sprintf("uncle-version/v%d->v%d/dist=%d/%s/known=%v", vU, vN, dist, cl, known))
					}
				}
			}
		}
	}
}
