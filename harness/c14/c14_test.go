// C14 - a proof-of-work seal is accepted exactly when it meets the target.
//
// Engine E4: bounded exhaustive enumeration of (version, header shape, nonce, difficulty, mix digest)
// against refpow, an independent evaluation of the stated formula (argon2id from
// golang.org/x/crypto/argon2 with literal parameters, keccak from golang.org/x/crypto/sha3, ethash
// written from the specification, RLP written from the Yellow Paper).  DESIGN.md section 4/C14.
package c14

import (
	"context"
	"encoding/hex"
	"fmt"
	"gitlab.com/aquachain/aquachain/zzverif/ref/refhdr"
	"math/big"
	"os"
	"runtime/debug"
	"runtime/pprof"
	"sort"
	"strings"
	"sync"
	"testing"
	"time"

	"gitlab.com/aquachain/aquachain/common"
	"gitlab.com/aquachain/aquachain/common/log"
	"gitlab.com/aquachain/aquachain/consensus/aquahash"
	"gitlab.com/aquachain/aquachain/consensus/aquahash/ethashdag"
	"gitlab.com/aquachain/aquachain/core/types"
	"gitlab.com/aquachain/aquachain/params"
	"gitlab.com/aquachain/aquachain/zzverif/ev"
	"gitlab.com/aquachain/aquachain/zzverif/ref/refpow"
)

// ---- header <-> reference header <-> replay detail -----------------------------------------------

func toRef(h *types.Header) *refpow.Header {
	r := &refpow.Header{
		ParentHash: h.ParentHash, UncleHash: h.UncleHash, Coinbase: h.Coinbase, Root: h.Root, TxHash: h.TxHash,
		ReceiptHash: h.ReceiptHash, Bloom: h.Bloom, Difficulty: h.Difficulty, Number: h.Number, GasLimit: h.GasLimit,
		GasUsed: h.GasUsed, Time: h.Time, Extra: h.Extra, MixDigest: h.MixDigest, Nonce: h.Nonce.Uint64(),
		Version: byte(h.Version),
	}
	return r
}

func hdrDetail(h *types.Header) map[string]interface{} {
	return map[string]interface{}{
		"parentHash": ev.Hex(h.ParentHash[:]), "uncleHash": ev.Hex(h.UncleHash[:]), "coinbase": ev.Hex(h.Coinbase[:]),
		"root": ev.Hex(h.Root[:]), "txHash": ev.Hex(h.TxHash[:]), "receiptHash": ev.Hex(h.ReceiptHash[:]),
		"bloom": bloomStr(h.Bloom[:]), "difficulty": h.Difficulty.String(), "number": h.Number.String(),
		"gasLimit": fmt.Sprint(h.GasLimit), "gasUsed": fmt.Sprint(h.GasUsed), "time": h.Time.String(),
		"extra": ev.Hex(h.Extra), "mixDigest": ev.Hex(h.MixDigest[:]), "nonce": fmt.Sprint(h.Nonce.Uint64()),
		"version": fmt.Sprint(int(h.Version)),
	}
}

// bloomStr keeps replay files and NOTE lines short: a uniform bloom is written as "xNN".
func bloomStr(b []byte) string {
	for _, x := range b {
		if x != b[0] {
			return ev.Hex(b)
		}
	}
	return fmt.Sprintf("x%02x", b[0])
}

func hdrFromDetail(v interface{}) *types.Header {
	m, ok := v.(map[string]interface{})
	if !ok {
		ev.Broken("replay: no header in detail")
	}
	s := func(k string) string { x, _ := m[k].(string); return x }
	hx := func(k string) []byte {
		b, err := hex.DecodeString(s(k))
		if err != nil {
			ev.Broken("replay: bad hex in %s", k)
		}
		return b
	}
	bi := func(k string) *big.Int {
		x, ok := new(big.Int).SetString(s(k), 10)
		if !ok {
			ev.Broken("replay: bad integer in %s", k)
		}
		return x
	}
	h := &types.Header{Difficulty: bi("difficulty"), Number: bi("number"), Time: bi("time"), Extra: hx("extra")}
	copy(h.ParentHash[:], hx("parentHash"))
	copy(h.UncleHash[:], hx("uncleHash"))
	copy(h.Coinbase[:], hx("coinbase"))
	copy(h.Root[:], hx("root"))
	copy(h.TxHash[:], hx("txHash"))
	copy(h.ReceiptHash[:], hx("receiptHash"))
	if bs := s("bloom"); len(bs) == 3 && bs[0] == 'x' {
		x, _ := hex.DecodeString(bs[1:])
		for i := range h.Bloom {
			h.Bloom[i] = x[0]
		}
	} else {
		copy(h.Bloom[:], hx("bloom"))
	}
	copy(h.MixDigest[:], hx("mixDigest"))
	h.GasLimit = bi("gasLimit").Uint64()
	h.GasUsed = bi("gasUsed").Uint64()
	h.Nonce = types.EncodeNonce(bi("nonce").Uint64())
	h.Version = types.HeaderVersion(bi("version").Uint64())
	return h
}

// ---- header shapes ------------------------------------------------------------------------------

type shape struct {
	name string
	mk   func() *types.Header // Difficulty, Nonce, MixDigest, Version are filled by the enumeration
}

func fill(b []byte, seed byte) {
	for i := range b {
		b[i] = seed + byte(i)*7
	}
}

func shapes() []shape {
	return []shape{
		{"zero", func() *types.Header {
			return &types.Header{Number: big.NewInt(0), Time: big.NewInt(0)}
		}},
		{"typical", func() *types.Header {
			h := &types.Header{Number: big.NewInt(22801), Time: big.NewInt(1528000000), GasLimit: 4712388, GasUsed: 21000, Extra: []byte("aquachain")}
			fill(h.ParentHash[:], 1)
			h.UncleHash = types.EmptyUncleHash
			fill(h.Coinbase[:], 3)
			fill(h.Root[:], 4)
			h.TxHash, h.ReceiptHash = types.EmptyRootHash, types.EmptyRootHash
			return h
		}},
		{"extra32-bloom", func() *types.Header {
			h := &types.Header{Number: big.NewInt(7), Time: big.NewInt(1), GasLimit: 5000, GasUsed: 5000, Extra: make([]byte, 32)}
			fill(h.Extra, 0x80)
			fill(h.Bloom[:], 9)
			fill(h.ParentHash[:], 0xf0)
			return h
		}},
		{"big-numbers", func() *types.Header {
			h := &types.Header{Number: big.NewInt(29999), Time: new(big.Int).Lsh(big.NewInt(1), 63), GasLimit: 1<<63 - 1, GasUsed: 1 << 62, Extra: []byte{0x7f}}
			fill(h.TxHash[:], 0x55)
			fill(h.ReceiptHash[:], 0xaa)
			return h
		}},
		{"single-byte-fields", func() *types.Header {
			// values whose RLP is the single-byte form (< 0x80), a one-byte extra >= 0x80, bloom all ones
			h := &types.Header{Number: big.NewInt(127), Time: big.NewInt(128), GasLimit: 127, GasUsed: 1, Extra: []byte{0x80}}
			for i := range h.Bloom {
				h.Bloom[i] = 0xff
			}
			return h
		}},
		{"epoch1-extra33", func() *types.Header {
			h := &types.Header{Number: big.NewInt(30001), Time: new(big.Int).Lsh(big.NewInt(1), 200), GasLimit: 256, GasUsed: 255, Extra: make([]byte, 33)}
			fill(h.Extra, 1)
			fill(h.Root[:], 0x11)
			fill(h.Coinbase[:], 0xee)
			return h
		}},
	}
}

// ---- engines and ethash parameters ---------------------------------------------------------------

type engineT struct {
	name string
	e    *aquahash.Aquahash
	v1   bool // may be asked about version 1 headers cheaply
}

var (
	engines    []engineT
	testDag    *ethashdag.EthashDAG
	refEthash  = map[uint64]*refpow.EthashParams{} // per epoch, test-mode sizes
	refEthLock sync.Mutex
)

const (
	testCacheBytes   = 1024      // literal: test-mode cache size
	testDatasetBytes = 32 * 1024 // literal: test-mode dataset size
)

func ethParams(number uint64) *refpow.EthashParams {
	epoch := number / 30000
	refEthLock.Lock()
	defer refEthLock.Unlock()
	p := refEthash[epoch]
	if p == nil {
		p = refpow.FullParams(refpow.MakeCache(testCacheBytes, refpow.EpochSeed(epoch)), testDatasetBytes)
		refEthash[epoch] = p
	}
	return p
}

func setupEngines() {
	engines = []engineT{
		{"tester", aquahash.NewTester(), true},
		{"normal-start2", aquahash.New(&aquahash.Config{StartVersion: 2}), false},
	}
	testDag = ethashdag.New(&ethashdag.Config{CachesInMem: 2, DatasetsInMem: 2, PowMode: ethashdag.ModeTest})
}

func engineByName(n string) engineT {
	if n == "shared" {
		return engineT{"shared", aquahash.NewSharedTesting(), false}
	}
	for _, e := range engines {
		if e.name == n {
			return e
		}
	}
	ev.Broken("unknown engine %q", n)
	return engineT{}
}

// ---- violation collection -----------------------------------------------------------------------

type collector struct {
	mu    sync.Mutex
	viols []ev.Violation
	seen  map[string]bool
}

// check runs probe; a failing probe is re-run twice and must fail identically.
func (c *collector) check(scn, oracle, caseID string, detail map[string]interface{}, probe func() string) bool {
	msg := guarded(probe)
	if msg == "" {
		return true
	}
	for i := 0; i < 2; i++ {
		if m2 := guarded(probe); m2 != msg {
			// Every probe is a pure function of its header (fresh copies, no clock): a verdict that
			// changes between identical calls means the engine's answer depends on what it verified
			// before, which is itself a violation of "accepted exactly when ...".
			oracle, caseID = "verdict-depends-on-verification-history", scn+"/"+oracle
			msg = fmt.Sprintf("the same call gave %q and then %q", msg, m2)
			break
		}
	}
	c.mu.Lock()
	defer c.mu.Unlock()
	sig := scn + "/" + oracle + "/" + caseID
	if c.seen == nil {
		c.seen = map[string]bool{}
	}
	if c.seen[sig] {
		return false
	}
	c.seen[sig] = true
	if detail == nil {
		detail = map[string]interface{}{}
	}
	detail["_msg"] = msg
	c.viols = append(c.viols, ev.Violation{Scenario: scn, Oracle: oracle, CaseID: caseID, Detail: detail})
	return false
}

func guarded(probe func() string) (msg string) {
	defer func() {
		if r := recover(); r != nil {
			msg = fmt.Sprintf("panic: %v", r)
		}
	}()
	return probe()
}

// ---- probes -------------------------------------------------------------------------------------

func errStr(err error) string {
	if err == nil {
		return "<nil>"
	}
	return err.Error()
}

// probeVerify compares Engine.VerifySeal with the reference verdict.
func probeVerify(e engineT, h *types.Header) (msg string, v refpow.Verdict) {
	v = toRef(h).Accept(ethParams(h.Number.Uint64()))
	err := e.e.VerifySeal(nil, types.CopyHeader(h))
	if (err == nil) != v.Accept {
		return fmt.Sprintf("VerifySeal=%s but reference says accept=%v (%s) result=%x", errStr(err), v.Accept, v.Why, v.Result), v
	}
	return "", v
}

func diffClass(d *big.Int) string {
	switch {
	case d.Sign() <= 0:
		return "nonpositive"
	case d.BitLen() <= 1:
		return "one"
	case d.BitLen() <= 9:
		return "small"
	case d.BitLen() >= 255:
		return "huge"
	}
	return "mid"
}

func marginClass(v refpow.Verdict, d *big.Int) string {
	if v.Result == nil || d.Sign() <= 0 {
		return "-"
	}
	target := new(big.Int).Div(new(big.Int).Lsh(big.NewInt(1), 256), d)
	m := new(big.Int).SetBytes(v.Result).BitLen() - target.BitLen()
	if m < -3 {
		m = -3
	}
	if m > 3 {
		m = 3
	}
	return fmt.Sprintf("bits%+d", m)
}

var two256 = new(big.Int).Lsh(big.NewInt(1), 256)

func fixedDifficulties(quick bool) []*big.Int {
	var out []*big.Int
	small := []int64{1, 2, 3, 4, 16, 256, 0, -1}
	if !quick {
		small = []int64{1, 2, 3, 4, 5, 6, 7, 8, 15, 16, 17, 255, 256, 257, 65536, 0, -1, -2}
	}
	for _, x := range small {
		out = append(out, big.NewInt(x))
	}
	p255 := new(big.Int).Lsh(big.NewInt(1), 255)
	out = append(out, p255, new(big.Int).Sub(two256, big.NewInt(1)), new(big.Int).Set(two256),
		new(big.Int).Add(two256, big.NewInt(1)), new(big.Int).Neg(p255))
	return out
}

// withSeal returns h with difficulty, nonce and the CORRECT mix digest for its version.
func withSeal(base *types.Header, version byte, d *big.Int, nonce uint64) *types.Header {
	h := types.CopyHeader(base)
	h.Version = types.HeaderVersion(version)
	h.Difficulty = new(big.Int).Set(d)
	h.Nonce = types.EncodeNonce(nonce)
	h.MixDigest = common.Hash{}
	if version == 1 && d.Sign() > 0 {
		digest, _ := toRef(h).PoW(ethParams(h.Number.Uint64()))
		copy(h.MixDigest[:], digest)
	}
	return h
}

type chainStub struct{ cfg *params.ChainConfig }

func (c *chainStub) Config() *params.ChainConfig                             { return c.cfg }
func (c *chainStub) GetContext() context.Context                             { return context.Background() }
func (c *chainStub) CurrentHeader() *types.Header                            { return nil }
func (c *chainStub) GetHeader(hash common.Hash, number uint64) *types.Header { return nil }
func (c *chainStub) GetHeaderByNumber(number uint64) *types.Header           { return nil }
func (c *chainStub) GetHeaderByHash(hash common.Hash) *types.Header          { return nil }
func (c *chainStub) GetBlock(hash common.Hash, number uint64) *types.Block   { return nil }

// sealBounded runs Engine.Seal; the stop channel bounds the wait (safety net only: a sealer that has
// not answered after two minutes at difficulty <= 256 makes the run inconclusive, not a violation).
func sealBounded(e *aquahash.Aquahash, cfg *params.ChainConfig, h *types.Header) *types.Block {
	stop := make(chan struct{})
	type res struct {
		b   *types.Block
		err error
		pan interface{}
	}
	out := make(chan res, 1)
	go func() {
		defer func() {
			if r := recover(); r != nil {
				out <- res{pan: r}
			}
		}()
		var b *types.Block
		var err error
		if cfg == nil {
			b, err = e.Seal(nil, types.NewBlockWithHeader(h), stop)
		} else {
			b, err = e.Seal(&chainStub{cfg}, types.NewBlockWithHeader(h), stop)
		}
		out <- res{b: b, err: err}
	}()
	select {
	case r := <-out:
		if r.pan != nil {
			panic(r.pan)
		}
		if r.err != nil {
			panic(fmt.Sprintf("Seal returned error %v", r.err))
		}
		return r.b
	case <-time.After(2 * time.Minute):
		close(stop)
		ev.Broken("Seal did not return within the safety bound (difficulty %v, number %v)", h.Difficulty, h.Number)
	}
	return nil
}

// probeSealed checks a block the sealer returned for the unsealed header in.
func probeSealed(in *types.Header, wantVersion byte, out *types.Header) string {
	if out == nil {
		return "Seal returned no block although it was not stopped"
	}
	if byte(out.Version) != wantVersion {
		return fmt.Sprintf("sealed header has version %d, schedule says %d", out.Version, wantVersion)
	}
	in2 := types.CopyHeader(in)
	in2.Version = out.Version
	if in2.HashNoNonce() != out.HashNoNonce() {
		return "sealing changed a non-seal field"
	}
	if v := toRef(out).Accept(ethParams(out.Number.Uint64())); !v.Accept {
		return fmt.Sprintf("reference rejects the returned seal (%s) nonce=%d result=%x", v.Why, out.Nonce.Uint64(), v.Result)
	}
	for _, e := range engines {
		if !e.v1 && out.Version == 1 {
			continue
		}
		if err := e.e.VerifySeal(nil, types.CopyHeader(out)); err != nil {
			return fmt.Sprintf("VerifySeal(%s) rejects the returned seal: %v", e.name, err)
		}
	}
	return ""
}

// ---- the check ----------------------------------------------------------------------------------

func nonceSet(quick bool) []uint64 {
	n := 32
	if !quick {
		n = 1024
	}
	var out []uint64
	for i := 0; i < n; i++ {
		out = append(out, uint64(i))
	}
	return append(out, 1<<32, 1<<63, 1<<64-1)
}

func replay(run *ev.Run, d *ev.ReplayDoc, col *collector) {
	kind, _ := d.Detail["kind"].(string)
	switch kind {
	case "verify":
		h := hdrFromDetail(d.Detail["header"])
		en, _ := d.Detail["engine"].(string)
		col.check(d.Scenario, d.Oracle, d.CaseID, d.Detail, func() string { m, _ := probeVerify(engineByName(en), h); return m })
	case "sealed":
		in, out := hdrFromDetail(d.Detail["unsealed"]), hdrFromDetail(d.Detail["header"])
		col.check(d.Scenario, d.Oracle, d.CaseID, d.Detail, func() string { return probeSealed(in, byte(out.Version), out) })
	case "hash":
		h := hdrFromDetail(d.Detail["header"])
		col.check(d.Scenario, d.Oracle, d.CaseID, d.Detail, func() string { return probeHashes(h) })
	case "hash-sensitivity":
		base, h := hdrFromDetail(d.Detail["base"]), hdrFromDetail(d.Detail["header"])
		field, _ := d.Detail["field"].(string)
		seal, _ := d.Detail["seal"].(bool)
		col.check(d.Scenario, d.Oracle, d.CaseID, d.Detail, func() string { return probeSensitivity(base, h, field, seal) })
	case "schedule":
		net, _ := d.Detail["network"].(string)
		hs, _ := d.Detail["height"].(string)
		height, _ := new(big.Int).SetString(hs, 10)
		for _, s := range refpow.Schedules {
			if s.Name == net {
				cfg := params.GetChainConfigByChainId(big.NewInt(s.ChainID))
				col.check(d.Scenario, d.Oracle, d.CaseID, d.Detail, func() string { return probeSchedule(s, cfg, height.Uint64()) })
			}
		}
	case "uncle-version":
		num := func(k string) int { f, _ := d.Detail[k].(float64); return int(f) }
		cl, _ := d.Detail["class"].(string)
		known, _ := d.Detail["known"].(bool)
		c := uncleCase{num("fork"), num("dist"), uint64(num("nonce")), cl, known}
		col.check(d.Scenario, d.Oracle, d.CaseID, d.Detail, func() string {
			return probeUncle(params.Testnet2ChainConfig, refhdr.ByName("testnet2"), c)
		})
	default:
		ev.Broken("replay: unknown kind %q", kind)
	}
}

// probeHashes compares Header.Hash, Header.HashNoNonce, Block.Hash and Block.MinerHash with the reference.
func probeHashes(h *types.Header) string { return probeHashesOpt(h, true) }

func probeHashesOpt(h *types.Header, blockLevel bool) string {
	r := toRef(h)
	if got, want := h.Hash(), r.HeaderHash(); string(got[:]) != string(want) {
		return fmt.Sprintf("Header.Hash()=%x, reference (version %d hash of the 15-field RLP)=%x", got, h.Version, want)
	}
	if got, want := h.HashNoNonce(), r.SealFreeHash(); string(got[:]) != string(want) {
		return fmt.Sprintf("Header.HashNoNonce()=%x, reference=%x", got, want)
	}
	if !blockLevel {
		return ""
	}
	b := types.NewBlockWithHeader(h)
	if got, want := b.Hash(), r.HeaderHash(); string(got[:]) != string(want) {
		return fmt.Sprintf("Block.Hash()=%x, reference=%x", got, want)
	}
	if h.Version >= 2 {
		_, want := r.PoW(nil)
		if got := b.MinerHash(); string(got[:]) != string(want) {
			return fmt.Sprintf("Block.MinerHash()=%x, reference work hash=%x", got, want)
		}
	}
	return ""
}

// probeSensitivity: every field is committed to by the header hash; the seal-free hash commits to
// exactly the thirteen non-seal fields.
func probeSensitivity(base, h *types.Header, field string, seal bool) string {
	if h.Hash() == base.Hash() {
		return "changing " + field + " does not change Header.Hash()"
	}
	if seal && h.HashNoNonce() != base.HashNoNonce() {
		return "changing the seal field " + field + " changes the seal-free hash"
	}
	if !seal && h.HashNoNonce() == base.HashNoNonce() {
		return "changing " + field + " does not change the seal-free hash"
	}
	return ""
}

func probeSchedule(s refpow.Schedule, cfg *params.ChainConfig, height uint64) string {
	if cfg == nil {
		return "no built-in chain config with chain id " + fmt.Sprint(s.ChainID)
	}
	want := s.Version(height)
	if got := cfg.GetBlockVersion(new(big.Int).SetUint64(height)); byte(got) != want {
		return fmt.Sprintf("GetBlockVersion(%d)=%d, schedule says %d", height, got, want)
	}
	// a block received without a version gets it from the config; its hash is the scheduled version's
	h := shapes()[1].mk()
	h.Number = new(big.Int).SetUint64(height)
	h.Difficulty = big.NewInt(1)
	b := types.NewBlockWithHeader(h)
	b.SetVersionConfig(cfg)
	if byte(b.Version()) != want {
		return fmt.Sprintf("SetVersionConfig gives version %d at height %d, schedule says %d", b.Version(), height, want)
	}
	r := toRef(h)
	r.Version = want
	if got, w := b.Hash(), r.HeaderHash(); string(got[:]) != string(w) {
		return fmt.Sprintf("Block.Hash() at height %d = %x, scheduled version %d hash = %x", height, got, want, w)
	}
	return ""
}

func TestCheck(t *testing.T) {
	log.Root().SetHandler(log.DiscardHandler())
	debug.SetGCPercent(50) // argon2 allocates its memory on every call: keep the heap small so the same (cache-hot, already faulted-in) pages are reused
	run := ev.Start("exploration")
	run.Rule = "one evaluation = one comparison of the real code with the reference on one concrete input (VerifySeal verdict, a hash, a scheduled version, one sealed block); distinct_nontrivial = distinct (part, version, reference verdict and reason, difficulty class, bit distance between work hash and target / mutated field / network and fork side) classes"
	run.Assume("heights < 61,440,000 (VerifySeal rejects every header above the ethash epoch table, also argon2id ones; no built-in fork is near)")
	run.Assume("ethash (version 1) is evaluated in the repository's test mode (cache 1 KiB, dataset 32 KiB, epochs 0 and 1): light verification, the full-dataset evaluation and the sealer against an independent implementation of the specification; the full-size light evaluation (16 MiB cache) runs in the thorough tier only; the 1 GiB dataset is never built")
	run.Assume("argon2id itself is golang.org/x/crypto/argon2 on both sides; the reference fixes the parameters (time 1, memory 1/16/32 KiB, 1 lane, no salt, 32 bytes) and the seed layout")
	run.Assume("the seal-free hash uses keccak-256 for versions 1, 2, 4 and argon2id/16 KiB for version 3 (pinned behaviour of Header.HashNoNonce, transcribed)")
	run.Assume("target == work hash exactly cannot be constructed (the difficulty is part of the hashed header): the boundary is approached through the largest accepting / smallest rejecting difficulty of each computed hash")

	// VerifySeal prints rejected digests with fmt.Printf: keep stdout clean while enumerating
	realOut := os.Stdout
	devnull, _ := os.OpenFile(os.DevNull, os.O_WRONLY, 0)
	os.Stdout = devnull
	if pf := os.Getenv("C14_CPUPROFILE"); pf != "" {
		if f, err := os.Create(pf); err == nil {
			pprof.StartCPUProfile(f)
		}
	}
	finish := func(col *collector) {
		pprof.StopCPUProfile()
		os.Stdout = realOut
		for _, v := range col.viols {
			run.Violate(v)
		}
		run.Finish()
	}

	setupEngines()
	col := &collector{}
	if d := ev.Replay(); d != nil {
		replay(run, d, col)
		finish(col)
	}
	deadline := run.Deadline(150*time.Second, 14*time.Minute)
	capped := func() bool { return time.Now().After(deadline) }

	secs := map[string]float64{}
	timed := func(name string, f func()) {
		t0, e0 := time.Now(), run.Evals()
		f()
		secs[name] = float64(int(time.Since(t0).Seconds()*10)) / 10
		run.Set("evaluations_"+name, run.Evals()-e0)
	}
	timed("schedule", func() { partSchedule(run, col) })
	timed("hashes", func() { partHashes(run, col) })
	timed("verify", func() { partVerify(run, col, capped) })
	timed("digest", func() { partDigest(run, col) })
	timed("ethash_full", func() { partEthashFull(run, col) })
	timed("shared", func() { partShared(run, col) })
	timed("uncle_version", func() { partUncleVersion(run, col) })
	timed("sealer", func() { partSealer(run, col, capped) })
	if run.Thorough() {
		timed("ethash_real_size", func() { partEthashRealSize(run, col) })
	}
	run.Set("part_seconds", secs)
	finish(col)
}

// ---- part S: version follows the schedule ---------------------------------------------------------

func partSchedule(run *ev.Run, col *collector) {
	cfgs := params.AllChainConfigs()
	if len(cfgs) != len(refpow.Schedules) {
		col.check("schedule", "built-in-networks", "count", map[string]interface{}{"kind": "schedule"}, func() string {
			return fmt.Sprintf("repository has %d built-in chain configs, reference table has %d", len(cfgs), len(refpow.Schedules))
		})
	}
	for _, s := range refpow.Schedules {
		s := s
		var cfg *params.ChainConfig
		for _, c := range cfgs {
			if c.ChainId.Int64() == s.ChainID {
				cfg = c
			}
		}
		// fork heights literally
		for _, f := range []struct {
			hf   int
			want int64
		}{{5, s.HF5}, {8, s.HF8}, {9, s.HF9}} {
			f := f
			run.Eval(1)
			col.check("schedule", "fork-height", fmt.Sprintf("%s/HF%d", s.Name, f.hf), map[string]interface{}{"kind": "schedule", "network": s.Name, "height": "0"}, func() string {
				if cfg == nil {
					return "no such built-in network"
				}
				got := int64(-1)
				if g := cfg.GetHF(f.hf); g != nil {
					got = g.Int64()
				}
				if got != f.want {
					return fmt.Sprintf("HF%d of %s is %d, pinned schedule says %d", f.hf, s.Name, got, f.want)
				}
				return ""
			})
		}
		if cfg != nil && params.GetChainConfig(s.Name) != cfg {
			col.check("schedule", "name", s.Name, map[string]interface{}{"kind": "schedule", "network": s.Name, "height": "0"}, func() string {
				return "GetChainConfig(" + s.Name + ") is not the config with that chain id"
			})
		}
		hs := map[uint64]bool{0: true, 1: true, 2: true, 10000000: true}
		for _, f := range []int64{s.HF5, s.HF8, s.HF9} {
			if f >= 0 {
				for _, d := range []int64{-2, -1, 0, 1, 2} {
					if f+d >= 0 {
						hs[uint64(f+d)] = true
					}
				}
			}
		}
		var heights []uint64
		for h := range hs {
			heights = append(heights, h)
		}
		sort.Slice(heights, func(i, j int) bool { return heights[i] < heights[j] })
		for _, height := range heights {
			height := height
			want := s.Version(height)
			run.Eval(1)
			run.Class(fmt.Sprintf("schedule/%s/v%d", s.Name, want))
			det := map[string]interface{}{"kind": "schedule", "network": s.Name, "height": fmt.Sprint(height)}
			if !col.check("schedule", "version-at-height", fmt.Sprintf("%s/v%d", s.Name, want), det, func() string { return probeSchedule(s, cfg, height) }) {
				continue
			}
			// the sealer derives the version from the chain's config (the block is handed over without one) and
			// the result verifies; difficulty 1, so that only the version choice matters here
			h := shapes()[1].mk()
			h.Number = new(big.Int).SetUint64(height)
			h.Difficulty = big.NewInt(1)
			e := engines[0].e
			e.SetThreads(1)
			blk := sealBounded(e, cfg, h)
			var out *types.Header
			if blk != nil {
				out = blk.Header()
			}
			run.Eval(1)
			det2 := map[string]interface{}{"kind": "sealed", "network": s.Name, "unsealed": hdrDetail(withVersion(h, want))}
			if out != nil {
				det2["header"] = hdrDetail(out)
			} else {
				det2["header"] = hdrDetail(withVersion(h, want))
			}
			col.check("schedule", "sealer-uses-scheduled-version", fmt.Sprintf("%s/v%d", s.Name, want), det2, func() string { return probeSealed(h, want, out) })
			run.Sample(map[string]interface{}{"part": "schedule", "network": s.Name, "height": height, "version": want})
		}
	}
}

func withVersion(h *types.Header, v byte) *types.Header {
	c := types.CopyHeader(h)
	c.Version = types.HeaderVersion(v)
	return c
}

// ---- part H: header hash / seal-free hash per version, field sensitivity ---------------------------

type mutation struct {
	field string
	seal  bool // a seal field: the seal-free hash must NOT change
	apply func(h *types.Header)
}

func mutations(base *types.Header, quick bool) []mutation {
	var ms []mutation
	flip := func(field string, seal bool, n int, get func(h *types.Header) []byte) {
		for i := 0; i < n; i++ {
			i := i
			if quick && !seal && !(i == 0 || i == n-1 || i == n/2 || (n == 256 && i%32 == 5)) {
				continue // quick tier: first, middle and last byte of every field, every 32nd bloom byte
			}
			ms = append(ms, mutation{field, seal, func(h *types.Header) { get(h)[i] ^= 0x01 }})
		}
	}
	flip("parentHash", false, 32, func(h *types.Header) []byte { return h.ParentHash[:] })
	flip("uncleHash", false, 32, func(h *types.Header) []byte { return h.UncleHash[:] })
	flip("coinbase", false, 20, func(h *types.Header) []byte { return h.Coinbase[:] })
	flip("root", false, 32, func(h *types.Header) []byte { return h.Root[:] })
	flip("txHash", false, 32, func(h *types.Header) []byte { return h.TxHash[:] })
	flip("receiptHash", false, 32, func(h *types.Header) []byte { return h.ReceiptHash[:] })
	flip("bloom", false, 256, func(h *types.Header) []byte { return h.Bloom[:] })
	flip("extra", false, len(base.Extra), func(h *types.Header) []byte { return h.Extra })
	flip("mixDigest", true, 32, func(h *types.Header) []byte { return h.MixDigest[:] })
	flip("nonce", true, 8, func(h *types.Header) []byte { return h.Nonce[:] })
	ms = append(ms,
		mutation{"difficulty", false, func(h *types.Header) { h.Difficulty.Add(h.Difficulty, big.NewInt(1)) }},
		mutation{"number", false, func(h *types.Header) { h.Number.Add(h.Number, big.NewInt(1)) }},
		mutation{"time", false, func(h *types.Header) { h.Time.Add(h.Time, big.NewInt(1)) }},
		mutation{"gasLimit", false, func(h *types.Header) { h.GasLimit++ }},
		mutation{"gasUsed", false, func(h *types.Header) { h.GasUsed++ }},
		mutation{"extra", false, func(h *types.Header) { h.Extra = append(h.Extra, 0) }},
	)
	if len(base.Extra) > 0 {
		ms = append(ms, mutation{"extra", false, func(h *types.Header) { h.Extra = h.Extra[:len(h.Extra)-1] }})
	}
	return ms
}

func partHashes(run *ev.Run, col *collector) {
	type job struct {
		version byte
		sh      shape
	}
	var jobs []job
	for v := byte(1); v <= 4; v++ {
		for _, sh := range shapes() {
			jobs = append(jobs, job{v, sh})
		}
	}
	ev.ParallelFor(len(jobs), func(ji int) {
		j := jobs[ji]
		base := j.sh.mk()
		base.Version = types.HeaderVersion(j.version)
		base.Difficulty = big.NewInt(1000)
		base.Nonce = types.EncodeNonce(0x0102030405060708)
		base.MixDigest[31] = 1
		det := func(h *types.Header) map[string]interface{} {
			return map[string]interface{}{"kind": "hash", "header": hdrDetail(h)}
		}
		run.Eval(1)
		col.check("hashes", "equals-reference", fmt.Sprintf("v%d/base", j.version), det(base), func() string { return probeHashes(base) })
		h0, s0 := base.Hash(), base.HashNoNonce()
		_, _ = h0, s0
		for mi, m := range mutations(base, run.Quick()) {
			blockLevel := mi%16 == 0
			h := types.CopyHeader(base)
			m.apply(h)
			run.Eval(1)
			run.Class(fmt.Sprintf("hashes/v%d/%s", j.version, m.field))
			if !col.check("hashes", "equals-reference", fmt.Sprintf("v%d/%s", j.version, m.field), det(h), func() string { return probeHashesOpt(h, blockLevel) }) {
				continue
			}
			sdet := map[string]interface{}{"kind": "hash-sensitivity", "header": hdrDetail(h), "base": hdrDetail(base), "field": m.field, "seal": m.seal}
			col.check("hashes", "field-sensitivity", fmt.Sprintf("v%d/%s", j.version, m.field), sdet, func() string { return probeSensitivity(base, h, m.field, m.seal) })
		}
		if ji == 7 {
			run.Sample(map[string]interface{}{"part": "hashes", "version": j.version, "shape": j.sh.name, "hash": ev.Hex(h0[:]), "sealFree": ev.Hex(s0[:])})
		}
	})
}

// ---- part V: the acceptance predicate -------------------------------------------------------------

func partVerify(run *ev.Run, col *collector, capped func() bool) {
	type job struct {
		version byte
		sh      shape
		nonce   uint64
		idx     int
	}
	var jobs []job
	nonces := nonceSet(run.Quick())
	for v := byte(1); v <= 4; v++ {
		for _, sh := range shapes() {
			for i, n := range nonces {
				jobs = append(jobs, job{v, sh, n, i})
			}
		}
	}
	var capOnce sync.Once
	fixed := fixedDifficulties(run.Quick())
	ev.ParallelFor(len(jobs), func(ji int) {
		if capped() {
			capOnce.Do(func() { run.Cap("part verify: deadline reached") })
			return
		}
		j := jobs[ji]
		base := j.sh.mk()
		ds := append([]*big.Int{}, fixed...)
		// the difficulties around the largest one that the hash computed at difficulty 2 would still meet
		probe := withSeal(base, j.version, big.NewInt(2), j.nonce)
		_, res := toRef(probe).PoW(ethParams(probe.Number.Uint64()))
		if r := new(big.Int).SetBytes(res); r.Sign() > 0 {
			d0 := new(big.Int).Div(two256, r)
			for _, k := range []int64{-1, 0, 1} {
				if d := new(big.Int).Add(d0, big.NewInt(k)); d.Sign() > 0 {
					ds = append(ds, d)
				}
			}
		}
		for _, d := range ds {
			h := withSeal(base, j.version, d, j.nonce)
			for ei, e := range engines {
				if j.version == 1 && !e.v1 {
					continue
				}
				if ei > 0 && j.idx >= 24 {
					continue // the secondary engines share the code path; 24 nonces each are enough to see a divergence
				}
				var v refpow.Verdict
				run.Eval(1)
				ok := col.check("verify", "verdict-equals-reference",
					fmt.Sprintf("v%d/%s/d=%s", j.version, e.name, diffClass(d)),
					map[string]interface{}{"kind": "verify", "engine": e.name, "shape": j.sh.name, "header": hdrDetail(h)},
					func() string { var m string; m, v = probeVerify(e, h); return m })
				if ok && ei == 0 {
					run.Class(fmt.Sprintf("verify/v%d/%s/d=%s/%s", j.version, v.Why, diffClass(d), marginClass(v, d)))
					if j.idx == 3 && d.Cmp(big.NewInt(3)) == 0 {
						run.Sample(map[string]interface{}{"part": "verify", "version": j.version, "shape": j.sh.name, "nonce": j.nonce, "difficulty": d.String(), "accept": v.Accept, "result": ev.Hex(v.Result)})
					}
				}
			}
		}
	})
}

// ---- part M: wrong mix digests ----------------------------------------------------------------------

func partDigest(run *ev.Run, col *collector) {
	type job struct {
		version byte
		sh      shape
		nonce   uint64
	}
	var jobs []job
	for v := byte(1); v <= 4; v++ {
		for _, sh := range shapes()[1:3] {
			for _, n := range []uint64{0, 77, 1<<64 - 1} {
				jobs = append(jobs, job{v, sh, n})
			}
		}
	}
	ev.ParallelFor(len(jobs), func(ji int) {
		j := jobs[ji]
		good := withSeal(j.sh.mk(), j.version, big.NewInt(1), j.nonce) // difficulty 1: every work hash meets the target
		for pos := 0; pos < 32; pos++ {
			for _, x := range []byte{0x01, 0x80, 0xff} {
				h := types.CopyHeader(good)
				h.MixDigest[pos] ^= x
				for _, e := range engines {
					if j.version == 1 && !e.v1 {
						continue
					}
					var v refpow.Verdict
					run.Eval(1)
					if col.check("digest", "wrong-mix-digest-rejected", fmt.Sprintf("v%d/%s", j.version, e.name),
						map[string]interface{}{"kind": "verify", "engine": e.name, "shape": j.sh.name, "header": hdrDetail(h)},
						func() string { var m string; m, v = probeVerify(e, h); return m }) {
						run.Class(fmt.Sprintf("digest/v%d/%s/byte%d", j.version, v.Why, pos/8*8))
					}
				}
			}
		}
	})
}

// ---- part P: the process-wide shared engine (aqua/backend.go creates it for PowMode == ModeShared) ------

func partShared(run *ev.Run, col *collector) {
	e := engineT{"shared", aquahash.NewSharedTesting(), false}
	for v := byte(2); v <= 4; v++ {
		for _, sh := range shapes()[:2] {
			for _, n := range []uint64{0, 1, 2, 3} {
				for _, d := range []int64{1, 2, 3, 0} {
					h := withSeal(sh.mk(), v, big.NewInt(d), n)
					if n == 3 {
						h.MixDigest[7] = 1
					}
					run.Eval(1)
					// the case id is the failure mode, so that one defect is one signature
					probe := func() string { m, _ := probeVerify(e, h); return m }
					id := "verdict"
					if strings.HasPrefix(guarded(probe), "panic: runtime error: invalid memory address") {
						id = "nil-dereference"
					}
					col.check("shared-engine", "verdict-equals-reference", id,
						map[string]interface{}{"kind": "verify", "engine": "shared", "header": hdrDetail(h)}, probe)
				}
			}
		}
	}
}

// ---- part F: ethash light == full == reference (test mode) --------------------------------------------

func partEthashFull(run *ev.Run, col *collector) {
	for _, shi := range []int{1, 5} { // epoch 0 and epoch 1
		sh := shapes()[shi]
		base := sh.mk()
		number := base.Number.Uint64()
		ds := testDag.Dataset(number).GetDataset()
		if len(ds)*4 != testDatasetBytes {
			col.check("ethash", "dataset-size", sh.name, nil, func() string {
				return fmt.Sprintf("test-mode dataset has %d bytes, expected %d", len(ds)*4, testDatasetBytes)
			})
			continue
		}
		for n := uint64(0); n < 512; n++ {
			h := withSeal(base, 1, big.NewInt(1), n)
			run.Eval(1)
			run.Class(fmt.Sprintf("ethash-full/epoch%d", number/30000))
			col.check("ethash", "light-full-reference-agree", fmt.Sprintf("epoch%d", number/30000),
				map[string]interface{}{"kind": "verify", "engine": "tester", "header": hdrDetail(h)}, func() string {
					wd, wr := toRef(h).PoW(ethParams(number))
					fd, fr := ethashdag.HashimotoFull(ds, h.HashNoNonce().Bytes(), n)
					_, ld, lr, err := testDag.VerifySeal(number, h)
					if err != nil {
						return "light evaluation failed: " + err.Error()
					}
					if string(fd) != string(wd) || string(fr) != string(wr) {
						return fmt.Sprintf("full-dataset evaluation digest=%x result=%x, reference digest=%x result=%x", fd, fr, wd, wr)
					}
					if string(ld) != string(wd) || string(lr) != string(wr) {
						return fmt.Sprintf("light evaluation digest=%x result=%x, reference digest=%x result=%x", ld, lr, wd, wr)
					}
					return ""
				})
		}
	}
}

// ---- part L: whatever the sealer returns verifies ------------------------------------------------------

func partSealer(run *ev.Run, col *collector, capped func() bool) {
	type tgt struct {
		version byte
		cfg     *params.ChainConfig // nil: Seal is given no chain and falls back to the test schedule
		number  int64
	}
	targets := []tgt{
		{1, nil, 3}, {1, params.MainnetChainConfig, 22799},
		{2, nil, 5}, {2, params.MainnetChainConfig, 22800}, {2, params.Testnet2ChainConfig, 7},
		{3, params.Testnet2ChainConfig, 8}, {3, params.TestnetChainConfig, 650},
		{4, params.Testnet2ChainConfig, 19}, {4, params.Testnet2ChainConfig, 1000},
	}
	reps := 2
	if run.Thorough() {
		reps = 12
	}
	e := aquahash.NewTester() // one engine: the version-1 dataset is built once
	for _, tg := range targets {
		for _, threads := range []int{1, 2, 3} {
			for _, d := range []int64{1, 2, 16, 256} {
				for rep := 0; rep < reps; rep++ {
					if run.Quick() && d == 256 && rep > 0 {
						continue
					}
					if capped() {
						run.Cap("part sealer: deadline reached")
						return
					}
					for _, preset := range []string{"scheduled", "unset", "stale"} {
						// stale: the template still carries the version of the height before (a header copied from
						// its parent at the first block of a version-changing fork); the version is a function of
						// the height alone, whatever the template says
						cfgv := tg.cfg
						if cfgv == nil {
							cfgv = params.TestChainConfig
						}
						prevV := byte(cfgv.GetBlockVersion(big.NewInt(tg.number - 1)))
						if preset == "stale" && (tg.number < 1 || prevV == tg.version || prevV == 0) {
							continue
						}
						h := shapes()[1+rep%2].mk()
						h.Number = big.NewInt(tg.number)
						h.Difficulty = big.NewInt(d)
						h.Time = big.NewInt(int64(1000 + rep))
						// preset: the block carries the scheduled version, as the node's worker and Finalize
						// hand it over; unset: Seal itself has to stamp the version it derives from the schedule
						scn, id := "sealer", fmt.Sprintf("v%d/threads=%d", tg.version, threads)
						switch preset {
						case "scheduled":
							h.Version = types.HeaderVersion(tg.version)
						case "unset":
							scn, id = "sealer-version-unset", fmt.Sprintf("v%d", tg.version)
						case "stale":
							h.Version = types.HeaderVersion(prevV)
							scn, id = "sealer-version-stale", fmt.Sprintf("v%d-template-says-v%d", tg.version, prevV)
						}
						e.SetThreads(threads)
						blk := sealBounded(e, tg.cfg, h)
						var out *types.Header
						det := map[string]interface{}{"kind": "sealed", "threads": threads, "unsealed": hdrDetail(withVersion(h, tg.version))}
						if blk != nil {
							out = blk.Header()
							det["header"] = hdrDetail(out)
						} else {
							det["header"] = hdrDetail(withVersion(h, tg.version))
						}
						run.Eval(1)
						if col.check(scn, "returned-seal-verifies", id, det, func() string { return probeSealed(h, tg.version, out) }) {
							run.Class(fmt.Sprintf("%s/v%d/threads=%d/d=%d", scn, tg.version, threads, d))
							if rep == 0 && threads == 2 && d == 256 && preset == "scheduled" {
								run.Sample(map[string]interface{}{"part": "sealer", "version": tg.version, "threads": threads, "difficulty": d, "nonce": out.Nonce.Uint64()})
							}
						}
					}
				}
			}
		}
	}
}

// ---- part N (thorough): full-size light verification of epoch 0 -----------------------------------------

func partEthashRealSize(run *ev.Run, col *collector) {
	const cacheBytes0 = 16776896     // literal: ethash cache size of epoch 0
	const datasetBytes0 = 1073739904 // literal: ethash dataset size of epoch 0
	ep := refpow.LightParams(refpow.MakeCache(cacheBytes0, refpow.EpochSeed(0)), datasetBytes0)
	e := aquahash.New(&aquahash.Config{CachesInMem: 1, PowMode: aquahash.ModeNormal, StartVersion: 1})
	base := shapes()[1].mk()
	base.Number = big.NewInt(22799)
	for n := uint64(0); n < 48; n++ {
		for _, d := range []int64{1, 2, 3} {
			h := types.CopyHeader(base)
			h.Version, h.Difficulty, h.Nonce = 1, big.NewInt(d), types.EncodeNonce(n)
			digest, _ := toRef(h).PoW(ep)
			copy(h.MixDigest[:], digest)
			if n%4 == 3 {
				h.MixDigest[int(n)%32] ^= 0x10
			}
			run.Eval(1)
			var v refpow.Verdict
			if col.check("ethash-real-size", "verdict-equals-reference", fmt.Sprintf("d=%d", d), map[string]interface{}{"header": hdrDetail(h)}, func() string {
				v = toRef(h).Accept(ep)
				err := e.VerifySeal(nil, types.CopyHeader(h))
				if (err == nil) != v.Accept {
					return fmt.Sprintf("VerifySeal (full-size light)=%s, reference accept=%v (%s)", errStr(err), v.Accept, v.Why)
				}
				return ""
			}) {
				run.Class("ethash-real-size/" + v.Why)
			}
		}
	}
}

var _ = strings.Join
