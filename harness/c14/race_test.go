package c14

// Free-running pass under the Go race detector (complement, DESIGN.md 9.2 "Race passes"): the sealer's
// worker goroutines on real threads - the only concurrent code of this property. Every returned seal is
// also checked against the reference (deterministic oracle).

import (
	"encoding/json"
	"fmt"
	"math/big"
	"os"
	"testing"
	"time"

	"gitlab.com/aquachain/aquachain/common/log"
	"gitlab.com/aquachain/aquachain/consensus/aquahash"
	"gitlab.com/aquachain/aquachain/core/types"
	"gitlab.com/aquachain/aquachain/params"
)

func TestRaceFree(t *testing.T) {
	log.Root().SetHandler(log.DiscardHandler())
	t0 := time.Now()
	realOut := os.Stdout
	devnull, _ := os.OpenFile(os.DevNull, os.O_WRONLY, 0)
	os.Stdout = devnull
	setupEngines()
	jobs := 25
	if os.Getenv("VERIF_TIER") == "thorough" {
		jobs = 400
	}
	e := aquahash.NewTester()
	var fails []string
	n := 0
	for _, tg := range []struct {
		version byte
		number  int64
	}{{2, 7}, {3, 8}, {4, 19}} {
		for _, threads := range []int{2, 4, 8} {
			e.SetThreads(threads)
			for j := 0; j < jobs; j++ {
				h := shapes()[1+j%2].mk()
				h.Number = big.NewInt(tg.number)
				h.Difficulty = big.NewInt(64)
				h.Time = big.NewInt(int64(5000 + j))
				h.Version = types.HeaderVersion(tg.version)
				blk := sealBounded(e, params.Testnet2ChainConfig, h)
				n++
				var out *types.Header
				if blk != nil {
					out = blk.Header()
				}
				if msg := probeSealed(h, tg.version, out); msg != "" && len(fails) < 10 {
					fails = append(fails, fmt.Sprintf("version %d, %d threads, job %d: %s", tg.version, threads, j, msg))
				}
			}
		}
	}
	os.Stdout = realOut
	if p := os.Getenv("VERIF_RACE_OUT"); p != "" {
		b, _ := json.Marshal(map[string]interface{}{"shapes": 9, "iterations": map[string]int{"sealing-jobs": n}, "functional_failures": fails, "wall_s": time.Since(t0).Seconds()})
		os.WriteFile(p, b, 0o644)
	}
	for _, f := range fails {
		fmt.Println("RACEPASS-FAIL " + f)
	}
	if len(fails) > 0 {
		t.Fail()
	}
}
